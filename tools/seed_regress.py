#!/usr/bin/env python3
"""Regression matrix of the seeded defects: for every /verif/seeded/<name>/ applies patch.diff to a scratch
worktree of /repo (never to /repo itself), points the checks at it through VERIF_REPO and runs the quick
tier of every check that meta.json lists under caught_by_quick. A seed that a listed check no longer
reports (exit 0) is printed as MISSED. Works on copies of this directory ("lanes") so that /verif/build
and /verif/evidence are left alone.

usage: seed_regress.py [--lanes N] [--all-checks] [--out FILE] [seed names...]
A seed that is not stored yet is given as  name=/tmp/worktree:C01,C02  (patch in /tmp/worktree/SEED/patch.diff).
"""
import json, os, shutil, subprocess, sys, threading, queue, time

here = os.path.dirname(os.path.dirname(os.path.abspath(__file__)))
args = sys.argv[1:]
lanes = 3
out = os.path.join(here, "build", "seed_regress.tsv")
all_checks = False
names = []
while args:
    a = args.pop(0)
    if a == "--lanes":
        lanes = int(args.pop(0))
    elif a == "--out":
        out = args.pop(0)
    elif a == "--all-checks":
        all_checks = True
    else:
        names.append(a)
if not names:
    names = sorted(os.listdir(os.path.join(here, "seeded")))
out = os.path.abspath(out)
os.makedirs(os.path.dirname(out), exist_ok=True)
scratch = f"/tmp/seed-regress-{os.getpid()}"
os.makedirs(scratch)
work = queue.Queue()
for n in names:
    work.put(n)
lock = threading.Lock()
results = []
ALL = [f"C{i:02d}" for i in range(1, 20)]


def sh(cmd, **kw):
    return subprocess.run(cmd, shell=True, capture_output=True, text=True, **kw)


def lane(k):
    root = f"{scratch}/lane{k}"
    # a copy of the machinery without build output; each lane builds its own engine
    sh(f"mkdir -p {root} && cd {here} && git ls-files -z | xargs -0 cp --parents -t {root} 2>/dev/null; "
       f"cp -r {here}/engine {here}/check {here}/known_findings.json {here}/tools {root}/ 2>/dev/null")
    wt = f"{scratch}/wt{k}"
    while True:
        try:
            name = work.get_nowait()
        except queue.Empty:
            break
        if "=" in name:
            name, rest = name.split("=", 1)
            src, cs = rest.split(":")
            patch = f"{src}/SEED/patch.diff"
            checks = cs.split(",")
        else:
            meta = json.load(open(f"{here}/seeded/{name}/meta.json"))
            patch = f"{here}/seeded/{name}/patch.diff"
            checks = ALL if all_checks else meta["caught_by_quick"]
        sh(f"git -C /repo worktree remove --force {wt}; rm -rf {wt}")
        r = sh(f"git -C /repo worktree add --detach {wt} HEAD && git -C {wt} apply {patch}")
        if r.returncode != 0:
            with lock:
                results.append((name, "-", "PATCH-FAILS", r.stderr.strip()[-200:]))
            continue
        for c in checks:
            t0 = time.time()
            env = dict(os.environ, VERIF_REPO=wt)
            r = subprocess.run(["./check", c, "--tier", "quick"], cwd=root, env=env, capture_output=True, text=True)
            summary = [l for l in r.stdout.splitlines() if l.startswith(f"{c} quick:")]
            subs = {}
            for l in r.stdout.splitlines():
                if l.startswith("  sub="):
                    s = l.split()[0][4:]
                    subs[s] = subs.get(s, 0) + 1
            verdict = {0: "MISSED", 1: "caught", 2: "MACHINERY"}.get(r.returncode, f"exit{r.returncode}")
            line = (name, c, verdict, f"{time.time()-t0:.0f}s " + (summary[-1] if summary else r.stderr.strip()[-300:].replace("\n", " | ")) + " " + ",".join(sorted(subs))[:200])
            with lock:
                results.append(line)
                print("\t".join(line), flush=True)
                open(out, "a").write("\t".join(line) + "\n")
    sh(f"git -C /repo worktree remove --force {wt}; rm -rf {wt} {root}")


open(out, "w").close()
ts = [threading.Thread(target=lane, args=(k,)) for k in range(lanes)]
for t in ts:
    t.start()
for t in ts:
    t.join()
sh(f"rm -rf {scratch}; git -C /repo worktree prune")
missed = [r for r in results if r[2] != "caught"]
print(f"SUMMARY seeds={len(names)} runs={len(results)} not-caught={len(missed)}")
for r in missed:
    print("NOT-CAUGHT", "\t".join(r))
