#!/usr/bin/env python3
"""One-off helper used while rewriting DESIGN.md: splices replacement sections (from a directory) into the
document by section header and fills the seeded-defects table from /verif/seeded/*/meta.json."""
import re, sys, json, glob, os
src = open('/verif/DESIGN.md').read()
d = (sys.argv[1] if len(sys.argv) > 1 else "/verif/tools/design")
def read(n):
    p = os.path.join(d, n)
    return open(p).read() if os.path.exists(p) else None
SEP = '-' * 99 + '\n'
# split into preamble + sections by the separator lines
parts = src.split(SEP)
out = []
for i, part in enumerate(parts):
    m = re.match(r'\n## (\d+)\.', part)
    if i == 0:
        out.append(read('head.md') or part)
        continue
    if not m:
        out.append(part); continue
    n = int(m.group(1))
    rep = read(f's{n}.md')
    if n == 6:
        # keep the per-property rationale, replace the introduction before "### C01"
        intro = read('s60.md')
        if intro:
            k = part.index('### C01')
            part = '\n' + intro + part[k:]
        out.append(part)
    elif rep:
        out.append('\n' + rep + ('\n' if not rep.endswith('\n\n') else ''))
    else:
        out.append(part)
doc = SEP.join(out)
# seeded table
rows = ['| seed | property | needs to manifest | caught by (quick) | note |', '|---|---|---|---|---|']
for f in sorted(glob.glob('/verif/seeded/*/meta.json')):
    m = json.load(open(f))
    name = os.path.basename(os.path.dirname(f))
    rows.append('| `%s` | %s | %s | %s | %s |' % (name, m['property'], m['needs_to_manifest'].replace('|','\\|'), ', '.join(m['caught_by_quick']) or '**none**' , m.get('note','').replace('|','\\|')))
doc = doc.replace('<!-- SEEDED-TABLE -->', '\n'.join(rows))
open('/verif/DESIGN.md', 'w').write(doc)
print('sections:', len(parts), 'seeds:', len(rows) - 2)
