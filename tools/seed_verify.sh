#!/usr/bin/env bash
# usage: seed_verify.sh <worktree> <run|check> <demo files...>
# Confirms a seeded defect in its scratch worktree: builds with and without SEED/patch.diff and
# shows what `gram <cmd>` prints for each demo in both builds.
set -u
wt=$1; cmd=$2; shift 2
cd "$wt" || exit 1
git checkout -q -- src 2>/dev/null
git apply SEED/patch.diff || { echo "patch does not apply"; exit 1; }
cargo build --offline -q 2>&1 | tail -2
for f in "$@"; do echo "WITH    $f: $(NO_COLOR=1 timeout 20 ./target/debug/gram $cmd SEED/$f 2>&1 | tr '\n' ' ' | cut -c1-300)"; done
git apply -R SEED/patch.diff
cargo build --offline -q 2>&1 | tail -2
for f in "$@"; do echo "WITHOUT $f: $(NO_COLOR=1 timeout 20 ./target/debug/gram $cmd SEED/$f 2>&1 | tr '\n' ' ' | cut -c1-300)"; done
git apply SEED/patch.diff
