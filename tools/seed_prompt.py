import sys, json
# usage: seed_prompt.py <property id> <worktree tag, e.g. seed4-C01> <ideas to avoid>
# Prints the prompt given to a fresh sub-agent that writes a seeded defect (DESIGN.md 9.2). The agent gets
# the property text and a scratch worktree /tmp/<tag> only.
pid=sys.argv[1]; tag=sys.argv[2]; avoid=sys.argv[3]
prop=next(j for j in map(json.loads, open('/verif/properties.jsonl')) if j['id'] == pid)
prop = f"Property {prop['id']}: {prop['title']}\n\n{prop['statement']}\n\nQuantification: {prop['quantifier']['text']}"
print(f"""You are helping to test a verification harness by writing a *seeded defect* for the Rust project gramlang/gram (a small dependently typed functional language: tokenizer, packrat parser, de Bruijn terms, unifier-based type checker, normalizer, small-step evaluator; CLI `gram check FILE` / `gram run FILE`).

Your private scratch git worktree of the repository is at /tmp/{tag} (work ONLY there; never touch /repo or /verif; do not read anything under /verif). The sandbox has no network; use `cargo build --offline` / `cargo test --offline` inside /tmp/{tag}.

Here is a semantic property the project is supposed to satisfy:

{prop}

TASK: make ONE small, realistic source change in /tmp/{tag}/src (the kind of slip a maintainer could make in a refactor) such that:
 1. the project still compiles without warnings (`cargo build --offline`; the crate denies warnings) and the complete existing test suite still passes (`cargo test --offline` — all 450 tests);
 2. the property above is BROKEN by the change;
 3. the breakage needs something *specific* to manifest — a particular multi-step input, an unusual but legal program shape, a specific nesting/ordering, a particular combination of language features, or two cooperating code sites that each look fine alone — NOT something every ordinary use would expose at once. Prefer program shapes that are a little larger or more unusual than a minimal example: several binders nested, dependent or higher-order types, implicit binders `{{x : a}} => ...`, definition groups of three or more members, annotations that are themselves computed, non-ASCII identifiers, multi-line layouts, etc.;
 4. IMPORTANT: a previous round already used the following ideas, so choose something DIFFERENT (a different function and a different mechanism): {avoid};
 5. you provide a demonstration: a small gram program (file demo.g, plus the command to run) or a small Rust unit test, whose observable result FAILS to satisfy the property with your change and satisfies it without your change. Verify both directions yourself with `git diff -- src > /tmp/{tag}.p; git apply -R /tmp/{tag}.p; cargo build --offline; ...; git apply /tmp/{tag}.p` (do NOT use git stash: it is shared between worktrees).

Deliverables, all written into the directory /tmp/{tag}/SEED/ (create it; if a tool refuses to write a file there, write it with a shell heredoc):
 - patch.diff : output of `git diff -- src` for your change;
 - the demonstration files (e.g. demo.g, or demo_test.rs with instructions);
 - REPORT.md : which lines you changed and why it breaks the property, what specific condition is needed for it to manifest, the exact commands you ran and their output with and without the change, and confirmation that `cargo test --offline` passes with the change (paste the `test result:` line).
Leave the worktree with your change applied (do not commit). Finish by printing a SHORT summary (10 lines at most): the change, the condition, the demo result with/without. Keep the change minimal (a few lines). Do not modify tests. Do not add dependencies.""")
