#!/usr/bin/env bash
# Runs every registered check of a tier sequentially and prints one line each (for hand use).
tier=${1:-quick}
cd "$(dirname "$0")/.."
for id in C01 C02 C03 C04 C05 C06 C07 C08 C09 C10 C11 C12 C13 C14 C15 C16 C17 C18 C19; do
  start=$(date +%s)
  out=$(./check $id --tier $tier 2>&1); code=$?
  echo "$id exit=$code $(( $(date +%s) - start ))s :: $(echo "$out" | grep -E "^C[0-9]+ (quick|thorough):" | tail -1)"
  echo "$out" | grep -E "^(VIOLATION|MACHINERY)" | head -3
done
