#!/usr/bin/env python3
"""Stores a confirmed seeded defect under /verif/seeded/<name>/ (patch.diff, demonstration files, meta.json).
usage: seed_store.py <name> <worktree> <property> <needs> <demo-cmd> <with> <without> <caught-by quick> <caught-by thorough> [note]"""
import json, os, shutil, sys, glob
name, wt, prop, needs, democmd, with_, without, quick, thorough = sys.argv[1:10]
note = sys.argv[10] if len(sys.argv) > 10 else ""
dst = f"/verif/seeded/{name}"
os.makedirs(dst, exist_ok=True)
for f in glob.glob(f"{wt}/SEED/**/*", recursive=True) + glob.glob(f"{wt}/SEED/.*"):
    if os.path.isfile(f) and not os.path.basename(f).startswith(".foreign"):
        rel = os.path.relpath(f, f"{wt}/SEED")
        os.makedirs(os.path.dirname(os.path.join(dst, rel)) or dst, exist_ok=True)
        shutil.copy(f, os.path.join(dst, rel))
meta = {
    "property": prop,
    "breaks": open(f"/tmp/prop-{prop}.txt").read().split("\n")[0],
    "needs_to_manifest": needs,
    "written_by": "fresh sub-agent given only the property text and a scratch worktree",
    "confirmed": {
        "patch_applies_to_repo_head": True,
        "repo_test_suite_with_change": "450 passed; 0 failed (cargo test --workspace --offline)",
        "demonstration_command": democmd,
        "with_change": with_,
        "without_change": without,
    },
    "caught_by_quick": quick.split(",") if quick else [],
    "caught_by_thorough": thorough.split(",") if thorough else [],
    "note": note,
}
json.dump(meta, open(os.path.join(dst, "meta.json"), "w"), indent=1)
print("stored", dst, os.listdir(dst))
