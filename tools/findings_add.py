#!/usr/bin/env python3
"""Maintains /verif/known_findings.json (used by hand while building; never run by a check).
usage: findings_add.py ID status props(comma) commit title --witness W [--classifier C]"""
import json, sys, argparse
ap = argparse.ArgumentParser()
ap.add_argument("id"); ap.add_argument("status"); ap.add_argument("props"); ap.add_argument("commit"); ap.add_argument("title")
ap.add_argument("--witness", default=""); ap.add_argument("--classifier", default="")
a = ap.parse_args()
p = "/verif/known_findings.json"
d = json.load(open(p))
d["findings"] = [f for f in d["findings"] if f["id"] != a.id]
e = {"id": a.id, "properties": a.props.split(","), "status": a.status, "title": a.title, "witness": a.witness}
if a.status == "fixed":
    e["commit"] = a.commit
    e["fixed_line"] = "; ".join(f"fixed: property={p} {a.commit} {a.title}" for p in a.props.split(","))
else:
    e["classifier"] = a.classifier
d["findings"].append(e)
open(p, "w").write(json.dumps(d, indent=2, ensure_ascii=False) + "\n")
