#!/usr/bin/env bash
# usage: mut.sh "<sed-expr>" <file-in-repo> <check ids...>   — apply a one-line mutation to /repo, run the
# repo tests and the given checks, revert. For hand use while building; never registered.
set -u
expr=$1; file=$2; shift 2
cd /repo && sed -i "$expr" "$file" && git diff --stat | tail -1
if git diff --quiet; then echo "MUTATION DID NOT APPLY"; exit 1; fi
t=$(cargo test --workspace --offline 2>&1 | grep -E "^test result|^error" | head -2)
echo "repo tests: $t"
cd /verif
for id in "$@"; do ./check "$id" 2>&1 | grep -E "^(C[0-9]+ quick|  sub=)" | sed 's/input=.*//' | sort | uniq -c | sort -rn | head -4; done
cd /repo && git checkout -- . 
