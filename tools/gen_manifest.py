#!/usr/bin/env python3
"""Generates /verif/MANIFEST.json from the table below (kept in one place so that the manifest, the
not_applicable list and the engine's property list cannot drift apart)."""
import json, subprocess, sys

ALL = ["C%02d" % i for i in range(1, 20)]

# id -> (category, technique, level text, level note, design ref)
CHECKS = {
    "C12": ("exploration",
            "bounded exhaustive enumeration of unification problems (holes punched at every position and shift) against reference conversion and scope checks",
            "Instances are all closed type-directed terms up to 5/6 nodes; patterns are the instance with a hole punched at every position with every shift 0..depth (both argument orders) and with two holes (distinct cells, the same cell twice) at pairs of positions; plus all ordered pairs of the 400/1200 smallest terms and the 160/400 smallest definition groups, hole-free and holed (scope-escape and occurs-check configurations, the latter also chained through an earlier solution: (?0 ?1) against (a[?1] b[?0])), plus holed patterns under contexts with parameters and definitions, plus problems with holes on both sides, plus one hole written at two and three binder depths under every context of up to three parameters / definitions against every choice of context variables, and hole-free pairs of context variables wrapped in nested groups judged against the reference in both directions. For every success of the real unify: following the solutions terminates, every solution is in scope where its hole was written (the home depth of a hole, depth minus shift, is the same at every copy of it), the filled-in terms are convertible in the reference, the context is untouched.",
            "Trusted: reference conversion (fuel-bounded). `false` on a holed pair is never judged (unification is not complete across reduction). F-HOLE-COPY is a known finding attributed through hook H2.",
            "DESIGN.md 6/C12"),
    "C18": ("exploration",
            "bounded exhaustive enumeration of (context, open term) pairs obtained by peeling closed programs, with snapshot comparison of the context vectors",
            "Every closed type-directed program starting with a lambda or a definition group is peeled 1-3 binders deep; the typing and definitions contexts are built exactly as the checker pushes them (offsets 0, 1, 2) and the real type_check, normalize_weak_head and unify are called on the open body, well typed and in every single-point perturbation of the open part; the computed-annotation family (universe aliases, universe-valued functions, aliases of aliases as binder annotations; 252 programs) is peeled 1-4 deep. Same verdict and convertible type as the closed program, normal form and unification agree with their closed counterparts, and both context vectors are pointer-identical after every call, accepted or rejected.",
            "Trusted: reference conversion. The normalisation / unification parts are judged only when the reference reaches a full normal form within fuel (conversion with general recursion is semi-decidable).",
            "DESIGN.md 6/C18"),
    "C19": ("model_checking",
            "explicit-state breadth-first search over programs under meaning-preserving rewrites, dedup on program text, behaviour compared on the real code",
            "Initial states: every type-directed program of type int, bool or type that evaluates to a value, the nested-group family, and the mixed-group family (58 k groups of 4 annotated definitions mixing functions and computed definitions). Transitions: seven rewrites (consistent renaming of one binder, redundant parentheses, unused definitions, naming the program, annotated identity wrapper, `if true` wrapper, swapping any two independent function definitions of a group) at every applicable site. BFS to depth 2 from programs up to 4/5 nodes and depth 1 up to 6/7 nodes and from the families; every reachable program must be accepted and evaluate to the initial program's value. No reference model is involved.",
            "Trusted: nothing beyond the rewrite definitions themselves (engine/src/props/c19.rs). One genuine defect is recorded as a known finding (F-ORDER-SYNTACTIC: wrapping a value definition that an earlier computed definition uses makes the syntactic definition-order rule reject the program) with a defect-model classifier; F-ORDER-VALUE, first seen here through reorderings, was repaired.",
            "DESIGN.md 6/C19"),
    "C01": ("model_checking",
            "explicit-state exploration of the real small-step evaluator over exhaustively enumerated accepted programs, with a reference interpreter as the stuck-state oracle",
            "Every accepted program of the program space (type-directed programs up to 6/7 nodes and their annotation-omission / `_` variants, single-point perturbations of the smaller ones, all closed annotated terms up to 6/7 nodes, the alias family, the definition-order family with groups of up to 3 definitions) is run with the real evaluator::step one step at a time up to a horizon of 300/3000 steps. Every final state must be a value, or the reference interpreter started from that very state must report a division by zero; any other stuck state is a violation labelled with the reference's reason. Exhaustive over the stated space; programs beyond the horizon are reported as such.",
            "Trusted: reference interpreter (engine/src/model/interp.rs). Two genuine defects are recorded as known findings with defect-model classifiers (F-HOLE-UNSOLVED, F-HOLE-COPY); a third (F-ORDER-VALUE) was repaired.",
            "DESIGN.md 6/C01"),
    "C02": ("model_checking",
            "explicit-state exploration of the real evaluator with semantic invariance checked in every visited state against a big-step reference interpreter, plus an exhaustive operand sweep",
            "All 9 operators and negation on all 361 ordered pairs of 19 boundary integers (beyond 2^64), recursion and mutual recursion for arguments 0..10, Ackermann for small arguments, evaluation-order probes, the terminating examples, groups with placeholder (`_`) definitions in every position, every arithmetic / comparison sentence over literals up to 11/12 tokens (value of the tree grammar.y assigns), every type-directed program, the alias family and the type-valued groups: the real step relation is followed state by state; in every visited state the reference interpreter (environment-based, big-step, division specified by its identity) started from that state must give the same outcome as from the source program, and the final value must be the prescribed one.",
            "Trusted: reference interpreter. Function-valued results are compared by kind only.",
            "DESIGN.md 6/C02"),
    "C03": ("exploration",
            "bounded exhaustive enumeration of well-typed programs, all their single-point perturbations and all small annotated terms, judged by an independent NbE type checker",
            "For every program of the space that the real front end accepts (type-directed programs up to 6/7 nodes, their annotation variants, every single-point perturbation at every subterm position of the programs up to 5 nodes (quick) / of all of them (thorough), all closed annotated terms up to 6/7 nodes, the alias and nested-group families, and the type-pair family: ordered pairs of the smallest generated types and of all definition groups denoting types, of open types with a type-level function whose body is a group, of conditionals stuck on a parameter, and of terms under an opaque type constructor, meeting at an argument / the branches of a conditional / an annotated definition; and the late-hole family: un-annotated parameters whose type is fixed under further binders and groups), the elaborated term must be closed and an independent checker for explicitly typed terms (typing rules + lazy normalisation-by-evaluation with fuel) must derive a type convertible with the reported one.",
            "Trusted: engine/src/model/typing.rs (the standard rules; gram's deliberate choices - type : type, `_` : type, implicit functions not applicable, annotation-blind conversion, no eta - are followed). Fuel exhaustion never yields a verdict. F-HOLE-COPY is a known finding with a defect-model classifier that only fires on programs with holes.",
            "DESIGN.md 6/C03"),
    "C04": ("model_checking",
            "explicit-state exploration of the real evaluator with the reference type checker as a subject-reduction monitor on every visited state",
            "Over the C01 program space: in each of the first 25 states reached by the real step relation the reference checker must derive the type reported by `gram check`, and the final value must be canonical for that type (int -> literal, bool -> true/false, function type -> lambda, type -> type former).",
            "Trusted: reference type checker; states beyond the 25th and programs beyond the step horizon are only checked at their final value.",
            "DESIGN.md 6/C04"),
    "C05": ("exploration",
            "type-directed exhaustive enumeration of fully annotated well-typed programs, cross-examined by the reference checker, against the real front end",
            "Every program produced by type-directed enumeration up to 6/7 nodes (8 goal types; groups of one and two definitions with recursion, mutual recursion and type aliases in both directions; computed annotations; polymorphic identity), the alias family with groups of up to 2/3 aliases in every order, and every closed annotated term up to 6/7 nodes that the reference accepts must be accepted by the real front end with a type convertible to the expected one; the elaborated term must equal the source term with holes filled (lock-step skeleton comparison). An abnormal ending on such a program is a violation. For the nested-group and definition-order families the verdict of the definition-order check is compared in both directions with a reference model of the rule (a definition evaluated before a definition it needs, directly or through functions it calls, is available).",
            "Trusted: reference type checker, which also cross-examines the generator on every program. The order-rule model in engine/src/props/sem.rs (order_rule_violated).",
            "DESIGN.md 6/C05"),
    "C06": ("model_checking",
            "explicit-state exploration of the real evaluator with the real unifier/normaliser queried in every state, plus exhaustive term pairs against reference conversion",
            "For every terminating ground-typed program of the space: normalize_weak_head of the elaborated term must equal the value reached by step*; in each of the first 30 states unify(s,s), unify(s0,s), unify(s_prev,s) must hold and leave the context untouched; the operand sweep is repeated through the normaliser; and for all ordered pairs of the 420/1000 smallest closed hole-free terms of each of 8 types (with stuck-operator terms under binders, a variable applied to two and three convertible but differently written arguments, multi-member definition groups and implicit/explicit twins of every function and function type in the set) unify(a,b) = unify(b,a) = reference conversion.",
            "Trusted: reference conversion (NbE with fuel; pairs that exhaust it are skipped).",
            "DESIGN.md 6/C06"),
    "C13": ("model_checking",
            "stateless choice-tree exploration of hash-set iteration order through a hook, plus repeat-run differentials (in process with re-keyed hash containers, and on the real binary)",
            "The only iteration over a hash container that reaches an output (parser::check_definition) is turned into a choice point by hook H1; a stateless DFS explorer replays permutation prefixes and enumerates every permutation at every choice point for every member of the definition-order family (all groups of up to 3 definitions - thorough: also 4 at top level with at most 48 leaves -, each a literal, a lambda or a non-value expression mentioning any subset of the group; at top level, nested in a called function, and nested with every definition also mentioning an enclosing parameter; at most 300/5000 leaves per program, capped trees are counted and the run is then not called exhaustive). All leaves of a program's choice tree must be byte-identical results. The ownership of the nondeterminism is cross-checked twice: the whole pipeline (tokenize, parse, type check, evaluate) is repeated 5/12 times in process on each of 37 k programs built to produce several diagnostics of every kind (lexical, name clashes with binders and within a group, unbound names, type faults, definition order; and accepted programs with dependent types, whose printed form depends on which variables occur where) - std re-keys every new hash container, so a hash iteration anywhere that reaches the output shows as differing repetitions -, and by launching the real binary (hooks off, fresh hash seed per process) 6/24 times per file on the examples and on multi-diagnostic programs, for both `check` and `run`.",
            "Trusted: hook H1 (identity on ordered containers, so a repaired tree has no choice points). The process-level part is a repeat-run differential (sampling of hash seeds), labelled as such; the deciding step is the exhaustive permutation tree.",
            "DESIGN.md 6/C13"),
    "C15": ("exploration",
            "bounded exhaustive enumeration of texts/ranges, parse-tree node ranges and planted faults in systematically varied layouts",
            "(a) error::listing is called on every text up to 5/6 fragments (ASCII, 2- and 4-byte letters, space, tab, LF, CRLF) with every diagnostic-shaped range and compared with a specification of the listing (lines shown, 1-based numbers, marked character columns). (b) Every node of the parse result of every sentence up to the bounds must carry a range inside the file whose text re-parses to that node. (c) Every sentence up to the bounds is laid out in 9 ways (fault on line 1/2/9/10, after non-ASCII text on the same line, broken over several lines, CRLF) with planted faults - every use unbound, every binder re-bound (all binder forms), a stray symbol in every gap - and the reported listing must mark exactly the planted identifier or symbol. Type faults (uniquely spelled atoms of the wrong class) are planted at every operand, condition, annotation, applicand, function-type domain and codomain position of the typed programs with the same oracle, and multi-line operands are faulted after every number of preceding lines around 9/10, 99/100 and 999/1000 (the excerpt's line numbers change width).",
            "Trusted: the listing specification and reader in engine/src/model/listing.rs. Reading adopted: a diagnostic for a parenthesised operand may cover the operand with or without the parentheses enclosing only it. One genuine defect is recorded as a known finding (F-RANGE-CHAIN) with a defect-model classifier.",
            "DESIGN.md 6/C15"),
    "C08": ("exploration",
            "bounded exhaustive enumeration of name-instantiated derivation trees against a named scope resolver",
            "Every derivation tree of grammar.y up to 7/8 tokens (class alphabet) and 11/13 tokens (let and binder slices) and 15/17 tokens (a slice of nothing but names, definitions and parentheses: groups nested in definitions and bodies), with every assignment of a 3-name pool (including `_`, a keyword prefix and a non-ASCII name) to every identifier leaf, is parsed by the real parser and compared with a named scope resolver: predicted faults must be reported with the right kind and identifier, fault-free programs must carry exactly the predicted de Bruijn index at every occurrence. Exhaustive within the bounds.",
            "Trusted: the named resolver in engine/src/model/surface.rs (parameter scopes over body/codomain only; a let spine is one group scoping over all annotations, definitions and the body; `_` never binds). Follow-up diagnostic counts are not compared.",
            "DESIGN.md 6/C08"),
    "C11": ("exploration",
            "bounded exhaustive enumeration of de Bruijn terms and operation arguments against named substitution",
            "Every hole-free term up to 5/6 nodes over every term former (groups of 1-3 definitions; indices < 4) and up to 7/8 nodes over a reduced former set is pushed through the real free_variables, signed_shift and unsigned_shift (4 cutoffs x 7 amounts, plus the algebraic laws) and open (4 indices x up to 40 inserted terms x all insertion shifts; plus every term of up to 3/4 nodes with a free variable inserted into every host of up to 3 nodes); every result is compared with a named reference semantics in which a shift is insertion/removal of names in a context and opening is substitution for a name.",
            "Trusted: engine/src/model/subst.rs (90 lines; only looks at free occurrences and translates them through name positions, so it shares no index arithmetic with gram).",
            "DESIGN.md 6/C11"),
    "C16": ("exploration",
            "bounded exhaustive enumeration of parser outputs with a print / re-read round trip",
            "Every sentence of grammar.y up to 5/6 tokens (full alphabet), 7/9 tokens (class alphabet) and 11-17 tokens (ten sub-grammar slices, including every binder form and let groups as binder domains), and every naming of the let / binder slices up to 13 tokens over a small name pool (so printed names must resolve to the same binders), is parsed; the term is printed by gram's Display, re-tokenized and re-parsed in the same scope, and must equal the original up to names of unused function-type parameters and hole identity.",
            "Trusted: the comparison relation (engine/src/props/c16.rs). One genuine defect is recorded as a known finding (F-PRINT-IMPLICIT-PI, pinned by an existing unit test) with a defect-model classifier.",
            "DESIGN.md 6/C16"),
    "C14": ("exploration",
            "bounded exhaustive enumeration of strings, token sequences, edited sentences and byte files in crash-isolated workers",
            "Every string up to the C09 bounds, every token sequence up to length 4/5 over all 29 token symbols and 5/6 over a 21-symbol class alphabet (including streams tokenize itself never emits), and every grammar.y sentence up to 5/7 tokens (and every sentence of six sub-grammar slices up to 9/11 tokens) with every single-token deletion, substitution and insertion, and 624 programs that make the checker quote a compound operand, is pushed through the real tokenize and parse in worker processes with the same 16 MiB stack as the shipped binary; a panic is caught and reported with its message, an abort or watchdog expiry is attributed to the case in flight. The real `gram check` binary is launched on every byte string of length <= 1, byte pairs, invalid-UTF-8 mutations of the examples, an empty / missing file and a directory, and must honour the exit-code / stdout / stderr contract and agree with the in-process pipeline.",
            "Trusted: the worker supervision (signal handler dumps the case in flight; driver restarts). Token sequences that parse are also type checked in-process unless the reference finds a divergent piece in them (pre-screen); all of `gram check` is driven at process level, and for accepted files the standard output of `gram check` / `gram run` is compared byte for byte with what the in-process pipeline computes.",
            "DESIGN.md 6/C14"),
    "C17": ("exploration",
            "systematic enumeration of input families on a ladder of sizes with a deterministic work counter",
            "All 1681 input families of period 1 and 2 over 41 syntactic wrappers (including chains that end in two parenthesised operands, and groups of several members whose body or first definition is a parenthesised group), each in 8 variants (well formed, truncated four ways, wrong token planted at three places), are run through the real tokenize+parse at n = 1, 2, 4, ... 512 (quick) / 4096 (thorough) nested repetitions on a 2 GiB stack; the work measure is the number of heap allocations (deterministic), backed by a wall-clock cap per rung. A second sweep runs 558 families of definition groups whose members mention each other by offset sets within {-2,-1,+1,+2,+3} (all lambdas / a non-value head then lambdas / all non-values; complete, truncated, wrong token) up to 256/1024 definitions under the same cap and envelope. A finite ladder gives evidence of the growth law, not a proof for all n; exponential or super-quadratic behaviour shows up within the first rungs.",
            "Trusted: heap allocations as a proxy for parser work; thresholds (40 T^2 + 2e5 absolute, factor 6 per doubling for well-formed input) are 20x / 3x above the values measured on the unchanged tree.",
            "DESIGN.md 6/C17"),
    "C07": ("exploration",
            "bounded exhaustive enumeration of token sequences and grammar.y derivation trees against a grammar-derived oracle",
            "Every token sequence up to length 4 (quick) / 5 (thorough) over all 28 token kinds plus the line-break terminator, and of length 5 / 6 over a 21-symbol class alphabet, is parsed by the real parser and its acceptance compared with membership in the set of sentences enumerated from /repo/grammar.y (read at run time); enumeration also certifies that no sentence has two derivations; every single-token edit of every sentence of four grammar slices up to 9/11 tokens is accepted iff a span recogniser over grammar.y finds it to be a sentence. Every derivation tree up to 6-7 tokens (full alphabet), 8-9 tokens (class alphabet) and 9-19 tokens (ten sub-grammar slices: application chains, sums, products, mixed arithmetic, all comparison operators over arithmetic, let groups, groups of bare names nested in definitions, binder forms, groups in binder domains, if-let) is parsed and the result compared node for node with the tree the derivation specifies (left-folded chains, parentheses honoured). Exhaustive within those bounds.",
            "Trusted: the production-to-node mapping and re-association rule in engine/src/model/surface.rs (transcribed from grammar.y's header and the property), the derivation enumerator (cross-examined on every 97th sequence by an independent span recogniser over the same rules). Identifier spelling is abstracted (binders fresh, uses bound through parse's context parameter).",
            "DESIGN.md 6/C07"),
    "C10": ("model_checking",
            "explicit-state exploration of layout edits (deviation-bounded BFS) plus bounded exhaustive string enumeration against a reference lexer",
            "States are layouts of grammar.y sentences (a vector of gap fillers); transitions replace one gap's filler from a 17-entry menu of spaces, tabs, line breaks, comments (empty, ASCII, ending in multi-byte characters, at end of file). All states with at most 1 deviation (sentences up to 5/6 tokens, definition-group sentences up to 11/15) and 2 deviations (up to 4/5 tokens, and every sequence of two or three token kinds, grammatical or not - the rule is lexical) are visited; in each the real token stream must equal the stream predicted by the line-break rule of C10, and every `;` between an ender and a starter is swapped for separating line breaks / comments with the parse trees compared. In addition every string up to 6/7 fragments over a 12-fragment layout alphabet is compared with the reference lexer.",
            "Trusted: the ENDERS/STARTERS sets written out from the property text, the reference lexer. The prediction is replayed against the real tokenizer in every state (traces_validated_against_impl).",
            "DESIGN.md 6/C10"),
    "C09": ("exploration",
            "bounded exhaustive enumeration of input strings against a reference lexer",
            "Every string of at most k fragments over a 44-fragment alphabet chosen from the case analysis of the tokenizer, a 24-fragment core and a 20-fragment alphabet of characters whose grapheme cluster depends on what precedes them (plus de Bruijn texts with every fragment triple) is tokenized by the real code and compared token-for-token, range-for-range and diagnostic-for-diagnostic with a declarative reference lexer, and checked against the partition invariants. Exhaustive within the stated bound; nothing is claimed beyond it.",
            "Trusted: the reference lexer (engine/src/model/lexer.rs, 150 lines, states C09's token shapes and C10's line-break rule), the unicode-segmentation crate for grapheme boundaries. Characters outside the alphabet are not exercised.",
            "DESIGN.md 6/C09"),
}

# Sentences appended to the level text of a check: what rounds 8-10 of the seeded defects added.
ADDENDA = {
    "C01": " Added: the value-boundary family (groups whose members are literals, almost-literals, computed terms, aliases, calls and functions), the type-pair family, and elimination contexts: every accepted program of function type over a simple domain is also run applied to closed arguments (up to four, two candidates for the first) and with an integer / boolean result used as one, so that a program accepted at the wrong type shows as a stuck state.",
    "C02": " Added: the value-boundary family; in the operand sweep every pair also with the right, the left and both operands still to be computed when the operator is reached; elimination contexts (accepted functions applied to closed arguments).",
    "C03": " Added to the type-pair family: every operator on every pair of small literals inside types (condition of a conditional type, index of a type family), and dependent function types obtained through a type-level function under colliding binder names; elimination contexts.",
    "C04": " Added: the value-boundary and type-pair families and elimination contexts (the first 8 states of a derived application are monitored).",
    "C05": " Added: the text gram check prints for the elaborated term is read back and must again be the source with holes filled in; the type-pair family's additions (see C03) are judged for acceptance here.",
    "C06": " Added: the value-boundary family, operands still to be computed in the operand sweep, elimination contexts for programs of ground result type, and on every term of the pair sets the weak-head normal form of its body under its own binders must be convertible with it in the reference (a reduct), so that a rule that rebuilds a stuck term wrongly does not cancel out between the two sides of unify; conditionals stuck on a neutral application with convertible, differently written arguments are in the pair sets.",
    "C08": " Added naming pools: {_a, __, _} and {_a, a, _} (names that begin with the placeholder character), {aé1, aé2, _} and {éa, é漢, _} (names of mixed character widths that differ only in their last character).",
    "C12": " Added: the occurs check through the definitions of the context (the hole against the name of a definition that contains it, 240 problems, judged on the cells: no cell solved by a term containing that cell), and all ordered pairs of terms whose operators are stuck on variables, hole-free (consistency; a term against itself and its reduct must succeed) and with punched holes; implicit twins of the first functions and function types in the pair sweep; the occurs check in every child position of every term former (the hole against a weak-head normal term that contains it, under a context of two parameters).",
    "C13": " Added to the repeat-run differential: groups whose annotations produce several diagnostics, and every sentence up to 5/6 tokens (class alphabet) and 6..8/9 tokens (conditionals and definitions) with two stray tokens inserted at every pair of positions, tokenised and parsed three times with fresh hash keys.",
    "C14": " Added: printing the result is a stage (as gram check prints it); definitions that contain holes and are used by name, with the late-hole and value-boundary families; at process level `gram run FILE` and `gram FILE` on every file case (agreement with each other and with gram check), and every diagnostic of the in-process pipeline must be on stderr, whole and in order.",
    "C15": " Added: compound offenders (every kind of compound expression where another class is required; some diagnostic must mark exactly the compound) and definition-order diagnostics (the excerpt lies inside the definition the message names).",
    "C19": " Added: rewrites at every annotated definition (an unused local definition, a naming, an identity wrapper at the declared type, `if true` around its right-hand side; the declared type named by an alias), and values with implicit binders and programs with un-annotated parameters as initial states; F-HOLE-COPY seen through such a rewrite is a known finding with its own classifier.",
    "C18": " Added: solved holes seen from deeper scopes (normalising Unifier(cell := X, shift k) against normalising X shifted by k, under every context of up to four parameters / definitions); programs whose parameters have an implicit function type, met by parameters over implicit and explicit function types.",
}

NOT_YET = "check not built yet (work in progress; see DESIGN.md section 13 for the build order)"
NOT_APPLICABLE = {}

def main():
    hooks_commits = []
    try:
        out = subprocess.run(["git", "-C", "/repo", "log", "--format=%H %s"], capture_output=True, text=True).stdout
        for line in out.splitlines():
            h, _, subj = line.partition(" ")
            if subj.startswith("verif:") or subj.startswith("hooks:"):
                hooks_commits.append(h)
    except Exception:
        pass
    checks = []
    for pid in ALL:
        if pid not in CHECKS:
            continue
        cat, tech, text, note, ref = CHECKS[pid]
        text = text + ADDENDA.get(pid, "")
        checks.append({
            "property_id": pid,
            "quick_cmd": f"./check {pid} --tier quick",
            "thorough_cmd": f"./check {pid} --tier thorough",
            "evidence_file": f"/verif/evidence/{pid}.json",
            "replay_cmd_template": f"./check {pid} --replay {{path}}",
            "engine": "verif-engine",
            "level_claimed": {"category": cat, "text": text, "design_ref": ref},
            "level_note": note,
            "technique": tech,
        })
    na = []
    for pid in ALL:
        if pid not in CHECKS:
            na.append({"property_id": pid, "reason": NOT_APPLICABLE.get(pid, NOT_YET)})
    manifest = {
        "version": 1,
        "setup_cmd": "./check --build",
        "hooks": {
            "guard": "cargo feature `verif` of gramlang/gram (off by default)",
            "enable": "the engine crate compiles /repo/src/*.rs into itself with its own feature `verif` enabled (engine/build.rs); `cargo build --features verif` in /repo enables the same hooks in the gram binary",
            "baseline_off_cmd": "cd /repo && cargo test --workspace --no-fail-fast --offline",
            "source_commits": list(reversed(hooks_commits)),
            "add_only": True,
        },
        "engines": [{
            "name": "verif-engine",
            "path": "/verif/engine",
            "serves_properties": [c["property_id"] for c in checks],
            "kind_free_text": "Rust crate that compiles gram's own source files into itself and drives the real tokenize/parse/type_check/unify/normalize/step/Display functions over exhaustively enumerated bounded input spaces and explicit state graphs, in isolated worker processes, against reference models (stateless exploration of the implementation + explicit-state search over the real transition function)",
        }],
        "checks": checks,
        "notes": "Exit codes of every command: 0 = property held on everything explored (KNOWN-FINDING lines may be printed for defects listed in known_findings.json), 1 = violation (VIOLATION line with a replay artefact), 2 = machinery failure (build error, vacuity guard, engine crash) which is never a verdict.",
        "not_applicable": na,
    }
    json.dump(manifest, open("/verif/MANIFEST.json", "w"), indent=1)
    print("wrote MANIFEST.json with", len(checks), "checks,", len(na), "not applicable")

main()
