#!/usr/bin/env python3
"""Generates /verif/MANIFEST.json from the table below (kept in one place so that the manifest, the
not_applicable list and the engine's property list cannot drift apart)."""
import json, subprocess, sys

ALL = ["C%02d" % i for i in range(1, 20)]

# id -> (category, technique, level text, level note, design ref)
CHECKS = {
    "C09": ("exploration",
            "bounded exhaustive enumeration of input strings against a reference lexer",
            "Every string of at most k fragments over a 44-fragment alphabet chosen from the case analysis of the tokenizer (plus de Bruijn texts with every fragment triple) is tokenized by the real code and compared token-for-token, range-for-range and diagnostic-for-diagnostic with a declarative reference lexer, and checked against the partition invariants. Exhaustive within the stated bound; nothing is claimed beyond it.",
            "Trusted: the reference lexer (engine/src/model/lexer.rs, 150 lines, states C09's token shapes and C10's line-break rule), the unicode-segmentation crate for grapheme boundaries. Characters outside the alphabet are not exercised.",
            "DESIGN.md 6/C09"),
}

NOT_YET = "check not built yet (work in progress; see DESIGN.md section 13 for the build order)"
NOT_APPLICABLE = {}

def main():
    hooks_commits = []
    try:
        out = subprocess.run(["git", "-C", "/repo", "log", "--format=%H %s"], capture_output=True, text=True).stdout
        for line in out.splitlines():
            h, _, subj = line.partition(" ")
            if subj.startswith("verif:") or subj.startswith("hooks:"):
                hooks_commits.append(h)
    except Exception:
        pass
    checks = []
    for pid in ALL:
        if pid not in CHECKS:
            continue
        cat, tech, text, note, ref = CHECKS[pid]
        checks.append({
            "property_id": pid,
            "quick_cmd": f"./check {pid} --tier quick",
            "thorough_cmd": f"./check {pid} --tier thorough",
            "evidence_file": f"/verif/evidence/{pid}.json",
            "replay_cmd_template": f"./check {pid} --replay {{path}}",
            "engine": "verif-engine",
            "level_claimed": {"category": cat, "text": text, "design_ref": ref},
            "level_note": note,
            "technique": tech,
        })
    na = []
    for pid in ALL:
        if pid not in CHECKS:
            na.append({"property_id": pid, "reason": NOT_APPLICABLE.get(pid, NOT_YET)})
    manifest = {
        "version": 1,
        "setup_cmd": "./check --build",
        "hooks": {
            "guard": "cargo feature `verif` of gramlang/gram (off by default)",
            "enable": "the engine crate compiles /repo/src/*.rs into itself with its own feature `verif` enabled (engine/build.rs); `cargo build --features verif` in /repo enables the same hooks in the gram binary",
            "baseline_off_cmd": "cd /repo && cargo test --workspace --no-fail-fast --offline",
            "source_commits": list(reversed(hooks_commits)),
            "add_only": True,
        },
        "engines": [{
            "name": "verif-engine",
            "path": "/verif/engine",
            "serves_properties": [c["property_id"] for c in checks],
            "kind_free_text": "Rust crate that compiles gram's own source files into itself and drives the real tokenize/parse/type_check/unify/normalize/step/Display functions over exhaustively enumerated bounded input spaces and explicit state graphs, in isolated worker processes, against reference models (stateless exploration of the implementation + explicit-state search over the real transition function)",
        }],
        "checks": checks,
        "notes": "Exit codes of every command: 0 = property held on everything explored (KNOWN-FINDING lines may be printed for defects listed in known_findings.json), 1 = violation (VIOLATION line with a replay artefact), 2 = machinery failure (build error, vacuity guard, engine crash) which is never a verdict.",
        "not_applicable": na,
    }
    json.dump(manifest, open("/verif/MANIFEST.json", "w"), indent=1)
    print("wrote MANIFEST.json with", len(checks), "checks,", len(na), "not applicable")

main()
