#!/usr/bin/env bash
# usage: run_some.sh <tier> <ids...>  — like run_all.sh for a list of checks (hand use, background runs)
tier=$1; shift
cd "$(dirname "$0")/.."
./check --build || exit 2
for id in "$@"; do
  start=$(date +%s)
  out=$(./check $id --tier $tier 2>&1); code=$?
  echo "$id exit=$code $(( $(date +%s) - start ))s :: $(echo "$out" | grep -E "^C[0-9]+ (quick|thorough):" | tail -1)"
  echo "$out" | grep -E "^(VIOLATION|MACHINERY|  sub=)" | head -6
done
