#!/usr/bin/env bash
# usage: seed_eval.sh <seed-name> <patch-file> <tier> <check ids...>
# Applies a seeded defect to /repo, runs the repository's own tests and the given checks, reverts.
set -u
name=$1; patch=$2; tier=$3; shift 3
cd /repo
if ! git diff --quiet; then echo "/repo is dirty"; exit 1; fi
git apply "$patch" || { echo "PATCH DOES NOT APPLY"; exit 1; }
echo "== $name: $(git diff --stat | tail -1)"
echo "repo tests: $(cargo test --workspace --offline 2>&1 | grep -E '^test result|^error' | head -2)"
cd /verif
for id in "$@"; do
  out=$(./check "$id" --tier "$tier" 2>&1); code=$?
  echo "$id exit=$code :: $(echo "$out" | grep -E '^C[0-9]+ (quick|thorough):' | tail -1)"
  echo "$out" | grep -E "^  sub=" | sed 's/ input=.*//' | sort | uniq -c | sort -rn | head -3
done
cd /repo && git checkout -- . && git status --short
