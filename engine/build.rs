// Generates the `#[path]` module declarations that bind gram's own source files into this crate.
use std::{env, fs, path::PathBuf};
fn main() {
    let repo = env::var("VERIF_REPO").unwrap_or_else(|_| "/repo".to_owned());
    let src = PathBuf::from(&repo).join("src");
    println!("cargo:rerun-if-changed={}", src.display());
    println!("cargo:rerun-if-env-changed=VERIF_REPO");
    let mut names = vec![];
    for entry in fs::read_dir(&src).expect("cannot read /repo/src") {
        let path = entry.unwrap().path();
        if path.extension().and_then(|e| e.to_str()) != Some("rs") {
            continue;
        }
        let stem = path.file_stem().unwrap().to_str().unwrap().to_owned();
        println!("cargo:rerun-if-changed={}", path.display());
        if stem == "main" {
            continue;
        }
        names.push((stem, path));
    }
    names.sort();
    let mut out = String::new();
    for (stem, path) in &names {
        if stem == "assertions" {
            out.push_str("#[macro_use]\n");
        }
        out.push_str(&format!("#[path = {:?}]\npub mod {};\n", path.display().to_string(), stem));
    }
    out.push_str(&format!(
        "pub const HAS_VERIF_HOOKS: bool = {};\n",
        names.iter().any(|(s, _)| s == "verif_hooks")
    ));
    let dest = PathBuf::from(env::var("OUT_DIR").unwrap()).join("gram_modules.rs");
    fs::write(dest, out).unwrap();
}
