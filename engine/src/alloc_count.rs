// A counting global allocator: the deterministic work measure of C17 (every Rc::new, cache insert and
// cloned error vector of the parser allocates, so allocations are proportional to parse-function
// executions). Counting is per thread.
use std::alloc::{GlobalAlloc, Layout, System};
use std::cell::Cell;

pub struct Counting;

thread_local! {
    static ALLOCS: Cell<u64> = const { Cell::new(0) };
}

unsafe impl GlobalAlloc for Counting {
    unsafe fn alloc(&self, layout: Layout) -> *mut u8 {
        let _ = ALLOCS.try_with(|c| c.set(c.get() + 1));
        unsafe { System.alloc(layout) }
    }
    unsafe fn dealloc(&self, ptr: *mut u8, layout: Layout) {
        unsafe { System.dealloc(ptr, layout) }
    }
    unsafe fn realloc(&self, ptr: *mut u8, layout: Layout, new_size: usize) -> *mut u8 {
        let _ = ALLOCS.try_with(|c| c.set(c.get() + 1));
        unsafe { System.realloc(ptr, layout, new_size) }
    }
}

pub fn allocations() -> u64 {
    ALLOCS.try_with(Cell::get).unwrap_or(0)
}
