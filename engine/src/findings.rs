// known_findings.json: genuine defects of gramlang/gram that are recorded rather than repaired
// (status "known") or that were repaired by a `fix:` commit (status "fixed"; suppresses nothing).
// The file is read, never written, at run time.
use serde_json::Value;

pub struct Finding {
    pub id: String,
    pub property: Vec<String>,
    pub status: String,
    pub title: String,
}

pub fn load() -> Vec<Finding> {
    let path = format!("{}/known_findings.json", crate::infra::verif_dir());
    let Ok(text) = std::fs::read_to_string(&path) else {
        return vec![];
    };
    let v: Value = serde_json::from_str(&text)
        .unwrap_or_else(|e| crate::infra::machinery_exit(&format!("known_findings.json: {e}")));
    let mut out = vec![];
    for f in v.get("findings").and_then(Value::as_array).cloned().unwrap_or_default() {
        out.push(Finding {
            id: f.get("id").and_then(Value::as_str).unwrap_or("").to_owned(),
            property: f
                .get("properties")
                .and_then(Value::as_array)
                .map(|a| a.iter().filter_map(|x| x.as_str().map(str::to_owned)).collect())
                .unwrap_or_default(),
            status: f.get("status").and_then(Value::as_str).unwrap_or("").to_owned(),
            title: f.get("title").and_then(Value::as_str).unwrap_or("").to_owned(),
        });
    }
    out
}

// Is the classifier for this finding switched on (i.e. is it listed with status "known")?
pub fn is_known(id: &str) -> bool {
    use std::sync::OnceLock;
    static K: OnceLock<Vec<String>> = OnceLock::new();
    K.get_or_init(|| load().into_iter().filter(|f| f.status == "known").map(|f| f.id).collect())
        .iter()
        .any(|k| k == id)
}
