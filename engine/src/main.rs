// Verification engine for gramlang/gram: bounded exhaustive exploration of the real code.
//
// gram is a binary-only crate, so its source files are compiled *into this crate* under their own
// module names (see build.rs); `crate::parser`, `crate::term`, ... are gram's modules, built from the
// current working tree of /repo/src.
#![allow(dead_code, unused_imports, unused_variables, unused_macros, unused_mut)]
#![allow(clippy::all)]

include!(concat!(env!("OUT_DIR"), "/gram_modules.rs"));

#[macro_use]
mod infra;
mod alloc_count;

#[global_allocator]
static GLOBAL: alloc_count::Counting = alloc_count::Counting;

mod bind;
mod enumerate;
mod findings;
mod model;
mod props;

fn main() {
    infra::main_entry();
}
