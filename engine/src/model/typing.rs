// Reference type checker (5.6): explicit typing rules with conversion decided by lazy
// normalisation-by-evaluation, with fuel. Independent of gram's checker, unifier and normaliser.
//
//   type, int, bool : type      n : int      true, false : bool      _ (unresolved hole) : type
//   x : A in G  =>  x : A
//   A : type, (x:A) |- B : type                    =>  (x:A) -> B : type
//   A : type, (x:A) |- e : B                       =>  (x:A) => e : (x:A) -> B
//   f : C, C == (x:A) -> B explicit, a : A', A' == A   =>  f a : B[x:=a]
//   group G' = G, xi : Ai := ei;  Ai : type;  ei : Ai', Ai' == Ai;  b : T   =>  (group; b) : T
//   arithmetic on int, comparisons int -> bool, if c:bool then t:T else e:T', T == T'
//   ==  beta, delta (let-bound names unfold, recursively), arithmetic / comparison on literals, if on
//       literal booleans, under binders, ignoring parameter annotations of lambdas; no eta.
//
// Let-bound names are transparent in the semantic domain (they evaluate to their lazily unfolded
// definitions and introduce no level), so the type computed for a group is a value at the outer level.
use super::mterm::{M, Op, R};
use num_bigint::BigInt;
use std::{cell::RefCell, rc::Rc};

#[derive(Clone)]
pub enum V {
    Type,
    Int,
    Bool,
    True,
    False,
    Lit(BigInt),
    Lam(bool, Clo),
    Pi(bool, Th, Clo),
    N(Rc<Neutral>),
}

pub enum Neutral {
    Var(usize),
    Hole(usize, usize),
    App(Rc<Neutral>, Th),
    Neg(V),
    Bin(Op, V, V),
    If(V, Th, Th),
    // out of fuel: an unknown value
    Unknown,
    // the result of evaluating an ill-typed term (e.g. applying a non-function): equal to nothing
    Junk,
}

#[derive(Clone)]
pub enum Clo {
    // evaluate the body in the environment extended with the argument
    Eval(Env, R),
    // the type of the body of a lambda, re-inferred with the parameter bound to the argument
    Infer(Ctx, R, Th),
}

pub type Th = Rc<Thunk>;

pub struct Thunk {
    state: RefCell<ThunkState>,
}

enum ThunkState {
    Delayed(Env, R),
    // definition of a group member: evaluated in the environment that contains the group itself
    Forcing,
    Done(V),
}

#[derive(Clone)]
pub enum Env {
    Nil,
    Cons(Rc<(Th, Env)>),
}

impl Env {
    pub fn push(&self, t: Th) -> Env {
        Env::Cons(Rc::new((t, self.clone())))
    }
    pub fn get(&self, mut i: usize) -> Option<Th> {
        let mut e = self;
        loop {
            match e {
                Env::Nil => return None,
                Env::Cons(c) => {
                    if i == 0 {
                        return Some(c.0.clone());
                    }
                    i -= 1;
                    e = &c.1;
                }
            }
        }
    }
    pub fn len(&self) -> usize {
        let mut n = 0;
        let mut e = self;
        while let Env::Cons(c) = e {
            n += 1;
            e = &c.1;
        }
        n
    }
}

// Typing context: values and types of the variables in scope (innermost first), and the next level.
#[derive(Clone)]
pub struct Ctx {
    pub env: Env,
    pub types: Env,
    pub level: usize,
}

impl Ctx {
    pub fn empty() -> Ctx {
        Ctx { env: Env::Nil, types: Env::Nil, level: 0 }
    }
}

pub fn done(v: V) -> Th {
    Rc::new(Thunk { state: RefCell::new(ThunkState::Done(v)) })
}

pub fn delay(env: &Env, t: &R) -> Th {
    Rc::new(Thunk { state: RefCell::new(ThunkState::Delayed(env.clone(), t.clone())) })
}

#[derive(Clone, Debug, PartialEq, Eq)]
pub enum TypeError {
    NotAType(String),
    NotAFunction(String),
    ImplicitApplication(String),
    ArgumentMismatch(String),
    AnnotationMismatch(String),
    OperandNotInt(String),
    ConditionNotBool(String),
    BranchMismatch(String),
    UnboundVariable(usize),
    // fuel ran out: no verdict
    Unknown,
}

#[derive(Clone, Copy, PartialEq, Eq, Debug)]
pub enum Conv {
    Equal,
    Different,
    Unknown,
}

pub struct Checker {
    pub fuel: u64,
    pub exhausted: bool,
    depth: usize,
    pub max_depth: usize,
    // statistics
    pub steps: u64,
    // model of finding F-ANNOT: leave the annotations of definitions unchecked
    pub skip_definition_annotations: bool,
    // part of the model of finding F-HOLE-COPY: an unresolved hole converts with anything
    pub holes_are_wildcards: bool,
}

fn unknown() -> V {
    V::N(Rc::new(Neutral::Unknown))
}

impl Checker {
    pub fn new(fuel: u64) -> Checker {
        Checker { fuel, exhausted: false, depth: 0, max_depth: 2500, steps: 0, skip_definition_annotations: false, holes_are_wildcards: false }
    }

    fn tick(&mut self) -> bool {
        if self.fuel == 0 || self.depth >= self.max_depth {
            self.exhausted = true;
            return false;
        }
        self.fuel -= 1;
        self.steps += 1;
        true
    }

    pub fn force(&mut self, t: &Th) -> V {
        let st = std::mem::replace(&mut *t.state.borrow_mut(), ThunkState::Forcing);
        match st {
            ThunkState::Done(v) => {
                *t.state.borrow_mut() = ThunkState::Done(v.clone());
                v
            }
            ThunkState::Forcing => {
                // a definition that needs its own value: divergence written in the program
                self.exhausted = true;
                *t.state.borrow_mut() = ThunkState::Forcing;
                unknown()
            }
            ThunkState::Delayed(env, term) => {
                let v = self.eval(&env, &term);
                if self.exhausted {
                    // do not cache a result computed without fuel
                    *t.state.borrow_mut() = ThunkState::Delayed(env, term);
                } else {
                    *t.state.borrow_mut() = ThunkState::Done(v.clone());
                }
                v
            }
        }
    }

    pub fn eval(&mut self, env: &Env, t: &M) -> V {
        if !self.tick() {
            return unknown();
        }
        self.depth += 1;
        let v = self.eval_inner(env, t);
        self.depth -= 1;
        v
    }

    fn eval_inner(&mut self, env: &Env, t: &M) -> V {
        match t {
            // An unresolved hole stands for an unknown term that lives `shift` binders further out; two
            // occurrences denote the same unknown when the cell and that home depth coincide.
            M::Hole(c, s) => V::N(Rc::new(Neutral::Hole(*c, env.len().saturating_sub(*s)))),
            M::Type => V::Type,
            M::Int => V::Int,
            M::Bool => V::Bool,
            M::True => V::True,
            M::False => V::False,
            M::Lit(n) => V::Lit(n.clone()),
            M::Var(_, i) => match env.get(*i) {
                Some(th) => self.force(&th),
                None => {
                    self.exhausted = true;
                    unknown()
                }
            },
            M::Lam(_, imp, _, body) => V::Lam(*imp, Clo::Eval(env.clone(), body.clone())),
            M::Pi(_, imp, dom, cod) => V::Pi(*imp, delay(env, dom), Clo::Eval(env.clone(), cod.clone())),
            M::App(f, a) => {
                let fv = self.eval(env, f);
                let arg = delay(env, a);
                self.apply(fv, arg)
            }
            M::Let(ds, body) => {
                let e = self.group_env(env, ds);
                self.eval(&e, body)
            }
            M::Neg(a) => match self.eval(env, a) {
                V::Lit(n) => V::Lit(-n),
                v => V::N(Rc::new(Neutral::Neg(v))),
            },
            M::Bin(op, a, b) => {
                let x = self.eval(env, a);
                let y = self.eval(env, b);
                self.arith(*op, x, y)
            }
            M::If(c, t, e) => match self.eval(env, c) {
                V::True => self.eval(env, t),
                V::False => self.eval(env, e),
                v => V::N(Rc::new(Neutral::If(v, delay(env, t), delay(env, e)))),
            },
        }
    }

    // The environment of a definition group: every member is a lazily evaluated definition in the
    // environment that contains the whole group.
    pub fn group_env(&mut self, env: &Env, ds: &[(Rc<str>, R, R)]) -> Env {
        let thunks: Vec<Th> = ds.iter().map(|_| Rc::new(Thunk { state: RefCell::new(ThunkState::Forcing) })).collect();
        let mut e = env.clone();
        for th in &thunks {
            e = e.push(th.clone());
        }
        for (th, (_, _, d)) in thunks.iter().zip(ds) {
            *th.state.borrow_mut() = ThunkState::Delayed(e.clone(), d.clone());
        }
        e
    }

    fn arith(&mut self, op: Op, x: V, y: V) -> V {
        if let (V::Lit(a), V::Lit(b)) = (&x, &y) {
            let bool_v = |b: bool| if b { V::True } else { V::False };
            match op {
                Op::Add => return V::Lit(a + b),
                Op::Sub => return V::Lit(a - b),
                Op::Mul => return V::Lit(a * b),
                Op::Div => {
                    if let Some(q) = super::interp::div_trunc(a, b) {
                        return V::Lit(q);
                    }
                }
                Op::Lt => return bool_v(a < b),
                Op::Le => return bool_v(a <= b),
                Op::Eq => return bool_v(a == b),
                Op::Gt => return bool_v(a > b),
                Op::Ge => return bool_v(a >= b),
            }
        }
        V::N(Rc::new(Neutral::Bin(op, x, y)))
    }

    pub fn apply(&mut self, f: V, arg: Th) -> V {
        if !self.tick() {
            return unknown();
        }
        match f {
            V::Lam(_, clo) => self.instantiate(&clo, arg),
            V::N(n) => {
                if let Neutral::Unknown = *n {
                    return unknown();
                }
                if let Neutral::Junk = *n {
                    return V::N(n);
                }
                V::N(Rc::new(Neutral::App(n, arg)))
            }
            // ill-typed application: an opaque junk value (only reachable on ill-typed terms)
            _ => V::N(Rc::new(Neutral::Junk)),
        }
    }

    pub fn instantiate(&mut self, clo: &Clo, arg: Th) -> V {
        self.depth += 1;
        let v = match clo {
            Clo::Eval(env, body) => self.eval(&env.push(arg), body),
            Clo::Infer(ctx, body, dom) => {
                let c = Ctx { env: ctx.env.push(arg), types: ctx.types.push(dom.clone()), level: ctx.level };
                match self.infer(&c, body) {
                    Ok(v) => v,
                    Err(_) => {
                        self.exhausted = true;
                        unknown()
                    }
                }
            }
        };
        self.depth -= 1;
        v
    }

    fn fresh(&self, level: usize) -> Th {
        done(V::N(Rc::new(Neutral::Var(level))))
    }

    // Conversion of two values at a level.
    pub fn conv(&mut self, level: usize, a: &V, b: &V) -> bool {
        if !self.tick() {
            return false;
        }
        self.depth += 1;
        let r = self.conv_inner(level, a, b);
        self.depth -= 1;
        r
    }

    fn conv_th(&mut self, level: usize, a: &Th, b: &Th) -> bool {
        if Rc::ptr_eq(a, b) {
            return true;
        }
        let (x, y) = (self.force(a), self.force(b));
        self.conv(level, &x, &y)
    }

    fn conv_inner(&mut self, level: usize, a: &V, b: &V) -> bool {
        if self.holes_are_wildcards {
            let is_hole = |v: &V| matches!(v, V::N(n) if matches!(**n, Neutral::Hole(..)));
            if is_hole(a) || is_hole(b) {
                return true;
            }
        }
        match (a, b) {
            (V::Type, V::Type) | (V::Int, V::Int) | (V::Bool, V::Bool) | (V::True, V::True) | (V::False, V::False) => true,
            (V::Lit(x), V::Lit(y)) => x == y,
            (V::Lam(i, c1), V::Lam(j, c2)) => {
                i == j && {
                    let x = self.fresh(level);
                    let (u, v) = (self.instantiate(c1, x.clone()), self.instantiate(c2, x));
                    self.conv(level + 1, &u, &v)
                }
            }
            (V::Pi(i, d1, c1), V::Pi(j, d2, c2)) => {
                i == j && self.conv_th(level, d1, d2) && {
                    let x = self.fresh(level);
                    let (u, v) = (self.instantiate(c1, x.clone()), self.instantiate(c2, x));
                    self.conv(level + 1, &u, &v)
                }
            }
            (V::N(m), V::N(n)) => self.conv_neutral(level, m, n),
            _ => {
                if matches!(a, V::N(n) if matches!(**n, Neutral::Unknown)) || matches!(b, V::N(n) if matches!(**n, Neutral::Unknown)) {
                    self.exhausted = true;
                }
                false
            }
        }
    }

    fn conv_neutral(&mut self, level: usize, a: &Rc<Neutral>, b: &Rc<Neutral>) -> bool {
        if Rc::ptr_eq(a, b) && !matches!(**a, Neutral::Unknown) {
            return true;
        }
        match (&**a, &**b) {
            (Neutral::Var(i), Neutral::Var(j)) => i == j,
            (Neutral::Hole(c, s), Neutral::Hole(d, t)) => c == d && s == t,
            (Neutral::App(f, x), Neutral::App(g, y)) => self.conv_neutral(level, f, g) && self.conv_th(level, x, y),
            (Neutral::Neg(x), Neutral::Neg(y)) => self.conv(level, x, y),
            (Neutral::Bin(o, x1, y1), Neutral::Bin(p, x2, y2)) => o == p && self.conv(level, x1, x2) && self.conv(level, y1, y2),
            (Neutral::If(c1, t1, e1), Neutral::If(c2, t2, e2)) => {
                self.conv(level, c1, c2) && self.conv_th(level, t1, t2) && self.conv_th(level, e1, e2)
            }
            (Neutral::Unknown, _) | (_, Neutral::Unknown) => {
                self.exhausted = true;
                false
            }
            _ => false,
        }
    }

    fn is_type(&mut self, ctx: &Ctx, t: &M, what: &str) -> Result<(), TypeError> {
        let ty = self.infer(ctx, t)?;
        if self.conv(ctx.level, &ty, &V::Type) {
            Ok(())
        } else if self.exhausted {
            Err(TypeError::Unknown)
        } else {
            Err(TypeError::NotAType(format!("{what}: {}", t.show())))
        }
    }

    fn expect(&mut self, ctx: &Ctx, t: &M, want: &V, err: impl FnOnce(String) -> TypeError) -> Result<(), TypeError> {
        let ty = self.infer(ctx, t)?;
        if self.conv(ctx.level, &ty, want) {
            Ok(())
        } else if self.exhausted {
            Err(TypeError::Unknown)
        } else {
            Err(err(t.show()))
        }
    }

    // The context extended with a parameter of the given (delayed) type.
    pub fn bind_param(&self, ctx: &Ctx, ty: Th) -> Ctx {
        Ctx { env: ctx.env.push(self.fresh(ctx.level)), types: ctx.types.push(ty), level: ctx.level + 1 }
    }

    // The context extended with a definition group.
    pub fn bind_group(&mut self, ctx: &Ctx, ds: &[(Rc<str>, R, R)]) -> Ctx {
        let env = self.group_env(&ctx.env, ds);
        let mut types = ctx.types.clone();
        for (_, a, _) in ds {
            types = types.push(delay(&env, a));
        }
        Ctx { env, types, level: ctx.level }
    }

    pub fn infer(&mut self, ctx: &Ctx, t: &M) -> Result<V, TypeError> {
        if !self.tick() {
            return Err(TypeError::Unknown);
        }
        self.depth += 1;
        let r = self.infer_inner(ctx, t);
        self.depth -= 1;
        match r {
            Err(_) if self.exhausted => Err(TypeError::Unknown),
            r => r,
        }
    }

    fn infer_inner(&mut self, ctx: &Ctx, t: &M) -> Result<V, TypeError> {
        Ok(match t {
            M::Hole(..) | M::Type | M::Int | M::Bool => V::Type,
            M::Lit(_) => V::Int,
            M::True | M::False => V::Bool,
            M::Var(_, i) => match ctx.types.get(*i) {
                Some(th) => self.force(&th),
                None => return Err(TypeError::UnboundVariable(*i)),
            },
            M::Pi(_, _, dom, cod) => {
                self.is_type(ctx, dom, "domain")?;
                let c = self.bind_param(ctx, delay(&ctx.env, dom));
                self.is_type(&c, cod, "codomain")?;
                V::Type
            }
            M::Lam(_, imp, dom, body) => {
                self.is_type(ctx, dom, "parameter annotation")?;
                let dom_th = delay(&ctx.env, dom);
                let c = self.bind_param(ctx, dom_th.clone());
                // validate the body once under a generic parameter
                self.infer(&c, body)?;
                V::Pi(*imp, dom_th.clone(), Clo::Infer(ctx.clone(), body.clone(), dom_th))
            }
            M::App(f, a) => {
                let ft = self.infer(ctx, f)?;
                match ft {
                    V::Pi(false, dom, cod) => {
                        let at = self.infer(ctx, a)?;
                        let dv = self.force(&dom);
                        if !self.conv(ctx.level, &at, &dv) {
                            return Err(if self.exhausted { TypeError::Unknown } else { TypeError::ArgumentMismatch(a.show()) });
                        }
                        self.instantiate(&cod, delay(&ctx.env, a))
                    }
                    V::Pi(true, ..) => return Err(TypeError::ImplicitApplication(f.show())),
                    V::N(ref n) if self.holes_are_wildcards && matches!(**n, Neutral::Hole(..)) => {
                        self.infer(ctx, a)?;
                        V::N(Rc::new(Neutral::Hole(usize::MAX - 1, 0)))
                    }
                    _ => return Err(if self.exhausted { TypeError::Unknown } else { TypeError::NotAFunction(f.show()) }),
                }
            }
            M::Let(ds, body) => {
                let c = self.bind_group(ctx, ds);
                if !self.skip_definition_annotations {
                    for (_, a, _) in ds {
                        self.is_type(&c, a, "definition annotation")?;
                    }
                }
                for (i, (_, _, d)) in ds.iter().enumerate() {
                    let want_th = c.types.get(ds.len() - 1 - i).unwrap();
                    let want = self.force(&want_th);
                    self.expect(&c, d, &want, TypeError::AnnotationMismatch)?;
                }
                self.infer(&c, body)?
            }
            M::Neg(a) => {
                self.expect(ctx, a, &V::Int, TypeError::OperandNotInt)?;
                V::Int
            }
            M::Bin(op, a, b) => {
                self.expect(ctx, a, &V::Int, TypeError::OperandNotInt)?;
                self.expect(ctx, b, &V::Int, TypeError::OperandNotInt)?;
                if op.is_arith() { V::Int } else { V::Bool }
            }
            M::If(c, t, e) => {
                self.expect(ctx, c, &V::Bool, TypeError::ConditionNotBool)?;
                let tt = self.infer(ctx, t)?;
                let et = self.infer(ctx, e)?;
                if !self.conv(ctx.level, &tt, &et) {
                    return Err(if self.exhausted { TypeError::Unknown } else { TypeError::BranchMismatch(t.show()) });
                }
                tt
            }
        })
    }

    // Read a value back into a term (full normal form), for diagnostics and for C06. Spends fuel.
    pub fn quote(&mut self, level: usize, v: &V) -> M {
        use super::mterm::rc;
        if !self.tick() {
            return M::Hole(usize::MAX, 0);
        }
        self.depth += 1;
        let x: Rc<str> = Rc::from("x");
        let r = match v {
            V::Type => M::Type,
            V::Int => M::Int,
            V::Bool => M::Bool,
            V::True => M::True,
            V::False => M::False,
            V::Lit(n) => M::Lit(n.clone()),
            V::Lam(i, c) => {
                let b = self.instantiate(c, self.fresh(level));
                // parameter annotations are not part of the normal form
                M::Lam(x, *i, rc(M::Type), rc(self.quote(level + 1, &b)))
            }
            V::Pi(i, d, c) => {
                let dv = self.force(d);
                let dq = self.quote(level, &dv);
                let b = self.instantiate(c, self.fresh(level));
                M::Pi(x, *i, rc(dq), rc(self.quote(level + 1, &b)))
            }
            V::N(n) => self.quote_neutral(level, n),
        };
        self.depth -= 1;
        r
    }

    fn quote_neutral(&mut self, level: usize, n: &Neutral) -> M {
        use super::mterm::rc;
        match n {
            Neutral::Var(l) => M::Var(Rc::from("v"), level.saturating_sub(*l + 1)),
            Neutral::Hole(c, s) => M::Hole(*c, *s),
            Neutral::App(f, a) => {
                let fq = self.quote_neutral(level, f);
                let av = self.force(a);
                M::App(rc(fq), rc(self.quote(level, &av)))
            }
            Neutral::Neg(v) => M::Neg(rc(self.quote(level, v))),
            Neutral::Bin(o, a, b) => M::Bin(*o, rc(self.quote(level, a)), rc(self.quote(level, b))),
            Neutral::If(c, t, e) => {
                let (tv, ev) = (self.force(t), self.force(e));
                M::If(rc(self.quote(level, c)), rc(self.quote(level, &tv)), rc(self.quote(level, &ev)))
            }
            Neutral::Unknown => {
                self.exhausted = true;
                M::Hole(usize::MAX, 0)
            }
            Neutral::Junk => M::Hole(usize::MAX - 2, 0),
        }
    }
}

pub enum Judgement {
    // well typed, with its type
    Ok(V),
    Ill(TypeError),
    Unknown,
}

// Type check a closed term.
pub fn check_closed(t: &M, fuel: u64) -> (Judgement, Checker) {
    let mut ck = Checker::new(fuel);
    let r = ck.infer(&Ctx::empty(), t);
    let j = match r {
        _ if ck.exhausted => Judgement::Unknown,
        Ok(v) => Judgement::Ok(v),
        Err(TypeError::Unknown) => Judgement::Unknown,
        Err(e) => Judgement::Ill(e),
    };
    (j, ck)
}

// Are two closed terms convertible?
pub fn convertible_closed(a: &M, b: &M, fuel: u64) -> Conv {
    let mut ck = Checker::new(fuel);
    let (x, y) = (ck.eval(&Env::Nil, a), ck.eval(&Env::Nil, b));
    let r = ck.conv(0, &x, &y);
    if ck.exhausted {
        Conv::Unknown
    } else if r {
        Conv::Equal
    } else {
        Conv::Different
    }
}

// Is the value `v` (a type) convertible with the closed type expression `t`?
pub fn type_matches(ck: &mut Checker, v: &V, t: &M) -> Conv {
    let tv = ck.eval(&Env::Nil, t);
    let r = ck.conv(0, v, &tv);
    if ck.exhausted {
        Conv::Unknown
    } else if r {
        Conv::Equal
    } else {
        Conv::Different
    }
}
