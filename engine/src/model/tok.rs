// Token kinds as the models see them: the 28 variants of gram's `token::Variant`, with the two
// terminator flavours kept apart (29 symbols).
use num_bigint::BigInt;

#[derive(Clone, Copy, PartialEq, Eq, Hash, Debug, PartialOrd, Ord)]
#[repr(u8)]
pub enum K {
    Asterisk,
    Boolean,
    Colon,
    DoubleEquals,
    Else,
    Equals,
    False,
    GreaterThan,
    GreaterThanOrEqualTo,
    Identifier,
    If,
    Integer,
    IntegerLiteral,
    LeftCurly,
    LeftParen,
    LessThan,
    LessThanOrEqualTo,
    Minus,
    Plus,
    RightCurly,
    RightParen,
    Slash,
    Semicolon,
    Then,
    ThickArrow,
    ThinArrow,
    True,
    Type,
    LineBreak,
}

pub const ALL28: [K; 28] = [
    K::Asterisk,
    K::Boolean,
    K::Colon,
    K::DoubleEquals,
    K::Else,
    K::Equals,
    K::False,
    K::GreaterThan,
    K::GreaterThanOrEqualTo,
    K::Identifier,
    K::If,
    K::Integer,
    K::IntegerLiteral,
    K::LeftCurly,
    K::LeftParen,
    K::LessThan,
    K::LessThanOrEqualTo,
    K::Minus,
    K::Plus,
    K::RightCurly,
    K::RightParen,
    K::Slash,
    K::Semicolon,
    K::Then,
    K::ThickArrow,
    K::ThinArrow,
    K::True,
    K::Type,
];

impl K {
    // The terminal name used by grammar.y.
    pub fn grammar_name(self) -> &'static str {
        match self {
            K::Asterisk => "ASTERISK",
            K::Boolean => "BOOLEAN",
            K::Colon => "COLON",
            K::DoubleEquals => "DOUBLE_EQUALS",
            K::Else => "ELSE",
            K::Equals => "EQUALS",
            K::False => "FALSE",
            K::GreaterThan => "GREATER_THAN",
            K::GreaterThanOrEqualTo => "GREATER_THAN_OR_EQUAL",
            K::Identifier => "IDENTIFIER",
            K::If => "IF",
            K::Integer => "INTEGER",
            K::IntegerLiteral => "INTEGER_LITERAL",
            K::LeftCurly => "LEFT_CURLY",
            K::LeftParen => "LEFT_PAREN",
            K::LessThan => "LESS_THAN",
            K::LessThanOrEqualTo => "LESS_THAN_OR_EQUAL",
            K::Minus => "MINUS",
            K::Plus => "PLUS",
            K::RightCurly => "RIGHT_CURLY",
            K::RightParen => "RIGHT_PAREN",
            K::Slash => "SLASH",
            K::Semicolon | K::LineBreak => "TERMINATOR",
            K::Then => "THEN",
            K::ThickArrow => "THICK_ARROW",
            K::ThinArrow => "THIN_ARROW",
            K::True => "TRUE",
            K::Type => "TYPE",
        }
    }
    pub fn from_grammar_name(s: &str) -> Option<K> {
        ALL28.iter().copied().find(|k| k.grammar_name() == s)
    }
    // Source text of a token of this kind (identifiers and literals get a default spelling).
    pub fn text(self) -> &'static str {
        match self {
            K::Asterisk => "*",
            K::Boolean => "bool",
            K::Colon => ":",
            K::DoubleEquals => "==",
            K::Else => "else",
            K::Equals => "=",
            K::False => "false",
            K::GreaterThan => ">",
            K::GreaterThanOrEqualTo => ">=",
            K::Identifier => "x",
            K::If => "if",
            K::Integer => "int",
            K::IntegerLiteral => "1",
            K::LeftCurly => "{",
            K::LeftParen => "(",
            K::LessThan => "<",
            K::LessThanOrEqualTo => "<=",
            K::Minus => "-",
            K::Plus => "+",
            K::RightCurly => "}",
            K::RightParen => ")",
            K::Slash => "/",
            K::Semicolon => ";",
            K::Then => "then",
            K::ThickArrow => "=>",
            K::ThinArrow => "->",
            K::True => "true",
            K::Type => "type",
            K::LineBreak => "\n",
        }
    }
    // Can a token of this kind end an expression / start one? (Property C10's two sets.)
    pub fn is_ender(self) -> bool {
        matches!(
            self,
            K::Identifier
                | K::IntegerLiteral
                | K::Type
                | K::Integer
                | K::Boolean
                | K::True
                | K::False
                | K::RightParen
                | K::RightCurly
                | K::Semicolon
        )
    }
    pub fn is_starter(self) -> bool {
        matches!(
            self,
            K::Identifier
                | K::IntegerLiteral
                | K::Type
                | K::Integer
                | K::Boolean
                | K::True
                | K::False
                | K::If
                | K::LeftParen
                | K::LeftCurly
                | K::Semicolon
        )
    }
}

// A model token: kind plus payload.
#[derive(Clone, PartialEq, Eq, Debug)]
pub struct Tok {
    pub k: K,
    pub text: String, // identifier name / literal digits / fixed spelling
}

impl Tok {
    pub fn new(k: K) -> Tok {
        Tok { k, text: k.text().to_owned() }
    }
    pub fn ident(name: &str) -> Tok {
        Tok { k: K::Identifier, text: name.to_owned() }
    }
    pub fn lit(digits: &str) -> Tok {
        Tok { k: K::IntegerLiteral, text: digits.to_owned() }
    }
}

pub fn kind_of(v: &crate::token::Variant) -> K {
    use crate::token::{TerminatorType, Variant as V};
    match v {
        V::Asterisk => K::Asterisk,
        V::Boolean => K::Boolean,
        V::Colon => K::Colon,
        V::DoubleEquals => K::DoubleEquals,
        V::Else => K::Else,
        V::Equals => K::Equals,
        V::False => K::False,
        V::GreaterThan => K::GreaterThan,
        V::GreaterThanOrEqualTo => K::GreaterThanOrEqualTo,
        V::Identifier(_) => K::Identifier,
        V::If => K::If,
        V::Integer => K::Integer,
        V::IntegerLiteral(_) => K::IntegerLiteral,
        V::LeftCurly => K::LeftCurly,
        V::LeftParen => K::LeftParen,
        V::LessThan => K::LessThan,
        V::LessThanOrEqualTo => K::LessThanOrEqualTo,
        V::Minus => K::Minus,
        V::Plus => K::Plus,
        V::RightCurly => K::RightCurly,
        V::RightParen => K::RightParen,
        V::Slash => K::Slash,
        V::Terminator(TerminatorType::LineBreak) => K::LineBreak,
        V::Terminator(TerminatorType::Semicolon) => K::Semicolon,
        V::Then => K::Then,
        V::ThickArrow => K::ThickArrow,
        V::ThinArrow => K::ThinArrow,
        V::True => K::True,
        V::Type => K::Type,
    }
}

// Lay a model token sequence out as source text (single spaces between tokens) and return the text
// together with the byte range of every token.
pub fn layout(toks: &[Tok]) -> (String, Vec<(usize, usize)>) {
    let mut s = String::new();
    let mut ranges = vec![];
    for (i, t) in toks.iter().enumerate() {
        if i > 0 {
            s.push(' ');
        }
        let start = s.len();
        s.push_str(&t.text);
        ranges.push((start, s.len()));
    }
    (s, ranges)
}

// Build real gram tokens over `src` from model tokens and their ranges.
pub fn real_tokens<'a>(src: &'a str, toks: &[Tok], ranges: &[(usize, usize)]) -> Vec<crate::token::Token<'a>> {
    use crate::token::{TerminatorType, Token, Variant as V};
    toks.iter()
        .zip(ranges)
        .map(|(t, (s, e))| Token {
            source_range: crate::error::SourceRange { start: *s, end: *e },
            variant: match t.k {
                K::Asterisk => V::Asterisk,
                K::Boolean => V::Boolean,
                K::Colon => V::Colon,
                K::DoubleEquals => V::DoubleEquals,
                K::Else => V::Else,
                K::Equals => V::Equals,
                K::False => V::False,
                K::GreaterThan => V::GreaterThan,
                K::GreaterThanOrEqualTo => V::GreaterThanOrEqualTo,
                K::Identifier => V::Identifier(&src[*s..*e]),
                K::If => V::If,
                K::Integer => V::Integer,
                K::IntegerLiteral => V::IntegerLiteral(BigInt::parse_bytes(t.text.as_bytes(), 10).unwrap()),
                K::LeftCurly => V::LeftCurly,
                K::LeftParen => V::LeftParen,
                K::LessThan => V::LessThan,
                K::LessThanOrEqualTo => V::LessThanOrEqualTo,
                K::Minus => V::Minus,
                K::Plus => V::Plus,
                K::RightCurly => V::RightCurly,
                K::RightParen => V::RightParen,
                K::Slash => V::Slash,
                K::Semicolon => V::Terminator(TerminatorType::Semicolon),
                K::Then => V::Then,
                K::ThickArrow => V::ThickArrow,
                K::ThinArrow => V::ThinArrow,
                K::True => V::True,
                K::Type => V::Type,
                K::LineBreak => V::Terminator(TerminatorType::LineBreak),
            },
        })
        .collect()
}
