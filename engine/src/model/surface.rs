// Surface programs: named abstract syntax with explicit parentheses. Provides
//  * the mapping from a grammar.y derivation tree to the syntax tree the parser is specified to
//    build (5.1: productions -> nodes, chains re-associated to the left, parentheses honoured),
//  * the named scope resolver (5.3) that turns a surface program into a de Bruijn mirror term or a
//    list of scoping faults,
//  * a printer that inserts exactly the parentheses grammar.y requires.
use super::{
    grammar::{Grammar, Tree},
    mterm::{M, Op, R, rc},
    tok::{K, Tok},
};
use num_bigint::BigInt;
use std::rc::Rc;

#[derive(Clone, PartialEq, Eq, Debug, Hash)]
pub enum S {
    Type,
    Int,
    Bool,
    True,
    False,
    Lit(String),
    Var(String),
    Lam { name: String, implicit: bool, ann: Option<Rc<S>>, body: Rc<S> },
    // name None = non-dependent arrow
    Pi { name: Option<String>, implicit: bool, dom: Rc<S>, cod: Rc<S> },
    App(Rc<S>, Rc<S>),
    Let { name: String, ann: Option<Rc<S>>, def: Rc<S>, body: Rc<S> },
    Neg(Rc<S>),
    Bin(Op, Rc<S>, Rc<S>),
    If(Rc<S>, Rc<S>, Rc<S>),
    Paren(Rc<S>),
}

pub fn bx(s: S) -> Rc<S> {
    Rc::new(s)
}

// ------------------------------------------------------------------------------------------------
// Derivation tree -> raw surface tree (chains still right-nested, as derived).
// ------------------------------------------------------------------------------------------------

pub struct FromTree<'a> {
    pub g: &'a Grammar,
    pub toks: &'a [Tok],
    pub pos: usize,
}

impl<'a> FromTree<'a> {
    pub fn new(g: &'a Grammar, toks: &'a [Tok]) -> FromTree<'a> {
        FromTree { g, toks, pos: 0 }
    }

    fn leaf(&mut self) -> &Tok {
        let t = &self.toks[self.pos];
        self.pos += 1;
        t
    }

    pub fn convert(&mut self, t: &Tree) -> S {
        let Tree::Node { nt, kids, .. } = t else {
            crate::infra::machinery_exit("surface: leaf where a node was expected");
        };
        let name = self.g.nts[*nt].as_str();
        let nk = kids.len();
        // Helpers over the children in order: terminals advance the token cursor.
        macro_rules! skip {
            () => {{
                self.pos += 1;
            }};
        }
        match name {
            // Pass-through (unit) productions.
            "term" | "atom" | "small_term" | "medium_term" | "large_term" | "huge_term" | "giant_term" | "jumbo_term" => {
                if nk != 1 {
                    crate::infra::machinery_exit(&format!("grammar.y: rule {name} is expected to have unit alternatives only"));
                }
                self.convert(&kids[0])
            }
            "type" => {
                skip!();
                S::Type
            }
            "integer" => {
                skip!();
                S::Int
            }
            "boolean" => {
                skip!();
                S::Bool
            }
            "true" => {
                skip!();
                S::True
            }
            "false" => {
                skip!();
                S::False
            }
            "variable" => S::Var(self.leaf().text.clone()),
            "integer_literal" => S::Lit(self.leaf().text.clone()),
            "lambda" => {
                let name = self.leaf().text.clone();
                skip!();
                let body = self.convert(&kids[2]);
                S::Lam { name, implicit: false, ann: None, body: bx(body) }
            }
            "lambda_implicit" => {
                skip!();
                let name = self.leaf().text.clone();
                skip!();
                skip!();
                let body = self.convert(&kids[4]);
                S::Lam { name, implicit: true, ann: None, body: bx(body) }
            }
            "annotated_lambda" | "annotated_lambda_implicit" | "pi" | "pi_implicit" => {
                skip!();
                let var = self.leaf().text.clone();
                skip!();
                let dom = self.convert(&kids[3]);
                skip!();
                skip!();
                let body = self.convert(&kids[6]);
                let implicit = name.ends_with("implicit");
                if name.starts_with("annotated_lambda") {
                    S::Lam { name: var, implicit, ann: Some(bx(dom)), body: bx(body) }
                } else {
                    S::Pi { name: Some(var), implicit, dom: bx(dom), cod: bx(body) }
                }
            }
            "non_dependent_pi" => {
                let dom = self.convert(&kids[0]);
                skip!();
                let cod = self.convert(&kids[2]);
                S::Pi { name: None, implicit: false, dom: bx(dom), cod: bx(cod) }
            }
            "application" => {
                let f = self.convert(&kids[0]);
                let a = self.convert(&kids[1]);
                S::App(bx(f), bx(a))
            }
            "let" => {
                let var = self.leaf().text.clone();
                // let_annotation: %empty | COLON small_term
                let ann = match &kids[1] {
                    Tree::Node { kids: ak, .. } if ak.is_empty() => None,
                    Tree::Node { kids: ak, .. } => {
                        skip!();
                        Some(bx(self.convert(&ak[1])))
                    }
                    Tree::Leaf(_) => crate::infra::machinery_exit("grammar.y: unexpected let_annotation"),
                };
                skip!();
                let def = self.convert(&kids[3]);
                skip!();
                let body = self.convert(&kids[5]);
                S::Let { name: var, ann, def: bx(def), body: bx(body) }
            }
            "negation" => {
                skip!();
                S::Neg(bx(self.convert(&kids[1])))
            }
            "sum" | "difference" | "product" | "quotient" | "less_than" | "less_than_or_equal_to" | "equal_to"
            | "greater_than" | "greater_than_or_equal_to" => {
                let a = self.convert(&kids[0]);
                skip!();
                let b = self.convert(&kids[2]);
                let op = match name {
                    "sum" => Op::Add,
                    "difference" => Op::Sub,
                    "product" => Op::Mul,
                    "quotient" => Op::Div,
                    "less_than" => Op::Lt,
                    "less_than_or_equal_to" => Op::Le,
                    "equal_to" => Op::Eq,
                    "greater_than" => Op::Gt,
                    _ => Op::Ge,
                };
                S::Bin(op, bx(a), bx(b))
            }
            "if" => {
                skip!();
                let c = self.convert(&kids[1]);
                skip!();
                let t = self.convert(&kids[3]);
                skip!();
                let e = self.convert(&kids[5]);
                S::If(bx(c), bx(t), bx(e))
            }
            "group" => {
                skip!();
                let inner = self.convert(&kids[1]);
                skip!();
                S::Paren(bx(inner))
            }
            other => crate::infra::machinery_exit(&format!("grammar.y: rule {other} has no syntax-tree mapping in the model")),
        }
    }
}

// ------------------------------------------------------------------------------------------------
// Re-association: application, * /, + - chains associate to the left; parentheses are honoured.
// ------------------------------------------------------------------------------------------------

fn chain_class(op: Op) -> u8 {
    match op {
        Op::Mul | Op::Div => 1,
        Op::Add | Op::Sub => 2,
        _ => 0,
    }
}

pub fn reassoc(s: &S) -> S {
    match s {
        S::Type | S::Int | S::Bool | S::True | S::False | S::Lit(_) | S::Var(_) => s.clone(),
        S::Lam { name, implicit, ann, body } => S::Lam {
            name: name.clone(),
            implicit: *implicit,
            ann: ann.as_ref().map(|a| bx(reassoc(a))),
            body: bx(reassoc(body)),
        },
        S::Pi { name, implicit, dom, cod } => {
            S::Pi { name: name.clone(), implicit: *implicit, dom: bx(reassoc(dom)), cod: bx(reassoc(cod)) }
        }
        S::App(f, a) => {
            let mut items = vec![reassoc(f)];
            let mut cur: &S = a;
            while let S::App(x, y) = cur {
                items.push(reassoc(x));
                cur = y;
            }
            items.push(reassoc(cur));
            let mut it = items.into_iter();
            let mut acc = it.next().unwrap();
            for x in it {
                acc = S::App(bx(acc), bx(x));
            }
            acc
        }
        S::Bin(op, a, b) if chain_class(*op) != 0 => {
            let class = chain_class(*op);
            let mut items = vec![reassoc(a)];
            let mut ops = vec![*op];
            let mut cur: &S = b;
            while let S::Bin(o2, x, y) = cur {
                if chain_class(*o2) != class {
                    break;
                }
                items.push(reassoc(x));
                ops.push(*o2);
                cur = y;
            }
            items.push(reassoc(cur));
            let mut it = items.into_iter();
            let mut acc = it.next().unwrap();
            for (x, o) in it.zip(ops) {
                acc = S::Bin(o, bx(acc), bx(x));
            }
            acc
        }
        S::Bin(op, a, b) => S::Bin(*op, bx(reassoc(a)), bx(reassoc(b))),
        S::Let { name, ann, def, body } => S::Let {
            name: name.clone(),
            ann: ann.as_ref().map(|a| bx(reassoc(a))),
            def: bx(reassoc(def)),
            body: bx(reassoc(body)),
        },
        S::Neg(a) => S::Neg(bx(reassoc(a))),
        S::If(a, b, c) => S::If(bx(reassoc(a)), bx(reassoc(b)), bx(reassoc(c))),
        S::Paren(a) => S::Paren(bx(reassoc(a))),
    }
}

// ------------------------------------------------------------------------------------------------
// Scope resolution (named -> de Bruijn).
// ------------------------------------------------------------------------------------------------

#[derive(Clone, PartialEq, Eq, Debug, PartialOrd, Ord)]
pub enum Fault {
    NotInScope(String),
    AlreadyExists(String),
}

pub struct Resolver {
    // (name, depth at which it was bound)
    scope: Vec<(String, usize)>,
    pub faults: Vec<Fault>,
    pub next_hole: usize,
    // When true, a parenthesised `let` in body position is merged into the enclosing group (the
    // behaviour of finding F-PAREN-LET); the specified behaviour is `false`.
    pub merge_paren_let: bool,
}

impl Resolver {
    pub fn new(context: &[&str]) -> Resolver {
        Resolver {
            scope: context.iter().enumerate().map(|(i, n)| ((*n).to_owned(), i)).collect(),
            faults: vec![],
            next_hole: 0,
            merge_paren_let: false,
        }
    }

    fn lookup(&self, name: &str) -> Option<usize> {
        self.scope.iter().rev().find(|(n, _)| n == name).map(|(_, d)| *d)
    }

    fn hole(&mut self, shift: usize) -> M {
        let id = self.next_hole;
        self.next_hole += 1;
        M::Hole(id, shift)
    }

    fn bind(&mut self, name: &str, depth: usize) -> bool {
        if name == "_" {
            return false;
        }
        if self.lookup(name).is_some() {
            self.faults.push(Fault::AlreadyExists(name.to_owned()));
        }
        self.scope.push((name.to_owned(), depth));
        true
    }

    pub fn resolve(&mut self, s: &S, depth: usize) -> M {
        match s {
            S::Type => M::Type,
            S::Int => M::Int,
            S::Bool => M::Bool,
            S::True => M::True,
            S::False => M::False,
            S::Lit(d) => M::Lit(BigInt::parse_bytes(d.as_bytes(), 10).unwrap()),
            S::Var(name) => {
                if name == "_" {
                    return self.hole(0);
                }
                match self.lookup(name) {
                    Some(d) => M::Var(Rc::from(name.as_str()), depth - 1 - d),
                    None => {
                        self.faults.push(Fault::NotInScope(name.clone()));
                        self.hole(0)
                    }
                }
            }
            S::Lam { name, implicit, ann, body } => {
                let a = match ann {
                    Some(a) => self.resolve(a, depth),
                    None => self.hole(0),
                };
                let bound = self.bind(name, depth);
                let b = self.resolve(body, depth + 1);
                if bound {
                    self.scope.pop();
                }
                M::Lam(Rc::from(name.as_str()), *implicit, rc(a), rc(b))
            }
            S::Pi { name, implicit, dom, cod } => {
                let a = self.resolve(dom, depth);
                let n = name.clone().unwrap_or_else(|| "_".to_owned());
                let bound = self.bind(&n, depth);
                let b = self.resolve(cod, depth + 1);
                if bound {
                    self.scope.pop();
                }
                M::Pi(Rc::from(n.as_str()), *implicit, rc(a), rc(b))
            }
            S::App(f, a) => {
                let f = self.resolve(f, depth);
                let a = self.resolve(a, depth);
                M::App(rc(f), rc(a))
            }
            S::Let { .. } => {
                // Collect the group: the body-spine of lets, stopping at a parenthesised body.
                let mut defs: Vec<(&String, &Option<Rc<S>>, &S)> = vec![];
                let mut cur: &S = s;
                let body: &S;
                loop {
                    match cur {
                        S::Let { name, ann, def, body: b } => {
                            defs.push((name, ann, def));
                            cur = b;
                        }
                        S::Paren(inner) if self.merge_paren_let && matches!(**inner, S::Let { .. }) => {
                            cur = inner;
                        }
                        _ => {
                            body = cur;
                            break;
                        }
                    }
                }
                let n = defs.len();
                let mut bound = 0;
                for (i, (name, _, _)) in defs.iter().enumerate() {
                    if self.bind(name, depth + i) {
                        bound += 1;
                    }
                }
                let nd = depth + n;
                let mut out = vec![];
                for (i, (name, ann, def)) in defs.iter().enumerate() {
                    let a = match ann {
                        Some(a) => self.resolve(a, nd),
                        None => self.hole(n - i),
                    };
                    let d = self.resolve(def, nd);
                    out.push((Rc::from(name.as_str()), rc(a), rc(d)));
                }
                let b = self.resolve(body, nd);
                for _ in 0..bound {
                    self.scope.pop();
                }
                M::Let(out, rc(b))
            }
            S::Neg(a) => M::Neg(rc(self.resolve(a, depth))),
            S::Bin(op, a, b) => {
                let a = self.resolve(a, depth);
                let b = self.resolve(b, depth);
                M::Bin(*op, rc(a), rc(b))
            }
            S::If(a, b, c) => {
                let a = self.resolve(a, depth);
                let b = self.resolve(b, depth);
                let c = self.resolve(c, depth);
                M::If(rc(a), rc(b), rc(c))
            }
            S::Paren(a) => self.resolve(a, depth),
        }
    }
}

// Resolve a surface program against a context of free names. Ok(term) or the scoping faults.
pub fn resolve(s: &S, context: &[&str]) -> Result<M, Vec<Fault>> {
    let mut r = Resolver::new(context);
    let m = r.resolve(s, context.len());
    if r.faults.is_empty() { Ok(m) } else { Err(r.faults) }
}

// ------------------------------------------------------------------------------------------------
// Printing.
// ------------------------------------------------------------------------------------------------

// Tokens of a surface tree exactly as written (Paren nodes become parentheses, nothing is added).
pub fn tokens_verbatim(s: &S, out: &mut Vec<Tok>) {
    let k = |out: &mut Vec<Tok>, k: K| out.push(Tok::new(k));
    match s {
        S::Type => k(out, K::Type),
        S::Int => k(out, K::Integer),
        S::Bool => k(out, K::Boolean),
        S::True => k(out, K::True),
        S::False => k(out, K::False),
        S::Lit(d) => out.push(Tok::lit(d)),
        S::Var(n) => out.push(Tok::ident(n)),
        S::Lam { name, implicit, ann, body } => {
            match (ann, implicit) {
                (None, false) => out.push(Tok::ident(name)),
                (None, true) => {
                    k(out, K::LeftCurly);
                    out.push(Tok::ident(name));
                    k(out, K::RightCurly);
                }
                (Some(a), imp) => {
                    k(out, if *imp { K::LeftCurly } else { K::LeftParen });
                    out.push(Tok::ident(name));
                    k(out, K::Colon);
                    tokens_verbatim(a, out);
                    k(out, if *imp { K::RightCurly } else { K::RightParen });
                }
            }
            k(out, K::ThickArrow);
            tokens_verbatim(body, out);
        }
        S::Pi { name, implicit, dom, cod } => {
            match name {
                Some(n) => {
                    k(out, if *implicit { K::LeftCurly } else { K::LeftParen });
                    out.push(Tok::ident(n));
                    k(out, K::Colon);
                    tokens_verbatim(dom, out);
                    k(out, if *implicit { K::RightCurly } else { K::RightParen });
                }
                None => tokens_verbatim(dom, out),
            }
            k(out, K::ThinArrow);
            tokens_verbatim(cod, out);
        }
        S::App(f, a) => {
            tokens_verbatim(f, out);
            tokens_verbatim(a, out);
        }
        S::Let { name, ann, def, body } => {
            out.push(Tok::ident(name));
            if let Some(a) = ann {
                k(out, K::Colon);
                tokens_verbatim(a, out);
            }
            k(out, K::Equals);
            tokens_verbatim(def, out);
            k(out, K::Semicolon);
            tokens_verbatim(body, out);
        }
        S::Neg(a) => {
            k(out, K::Minus);
            tokens_verbatim(a, out);
        }
        S::Bin(op, a, b) => {
            tokens_verbatim(a, out);
            k(
                out,
                match op {
                    Op::Add => K::Plus,
                    Op::Sub => K::Minus,
                    Op::Mul => K::Asterisk,
                    Op::Div => K::Slash,
                    Op::Lt => K::LessThan,
                    Op::Le => K::LessThanOrEqualTo,
                    Op::Eq => K::DoubleEquals,
                    Op::Gt => K::GreaterThan,
                    Op::Ge => K::GreaterThanOrEqualTo,
                },
            );
            tokens_verbatim(b, out);
        }
        S::If(a, b, c) => {
            k(out, K::If);
            tokens_verbatim(a, out);
            k(out, K::Then);
            tokens_verbatim(b, out);
            k(out, K::Else);
            tokens_verbatim(c, out);
        }
        S::Paren(a) => {
            k(out, K::LeftParen);
            tokens_verbatim(a, out);
            k(out, K::RightParen);
        }
    }
}

// Precedence level of a node (grammar.y: term 0 > jumbo 1 > giant 2 > huge 3 > large 4 > medium 5 >
// small 6 > atom 7).
fn level(s: &S) -> u8 {
    match s {
        S::Let { .. } => 0,
        S::Lam { .. } | S::Pi { .. } | S::If(..) => 1,
        S::Bin(op, ..) => match op {
            Op::Lt | Op::Le | Op::Eq | Op::Gt | Op::Ge => 2,
            Op::Add | Op::Sub => 3,
            Op::Mul | Op::Div => 5,
        },
        S::Neg(_) => 4,
        S::App(..) => 6,
        _ => 7,
    }
}

fn at(s: S, min: u8) -> S {
    if level(&s) >= min { s } else { S::Paren(bx(s)) }
}

// Insert the parentheses grammar.y requires into a *semantic* surface tree (chains left-nested, a
// `let` spine = one group; existing Paren nodes are kept). The result, printed verbatim and parsed by
// the grammar, re-associates back to the input.
pub fn parenthesize(s: &S) -> S {
    match s {
        S::Type | S::Int | S::Bool | S::True | S::False | S::Lit(_) | S::Var(_) => s.clone(),
        S::Paren(a) => S::Paren(bx(parenthesize(a))),
        S::Lam { name, implicit, ann, body } => S::Lam {
            name: name.clone(),
            implicit: *implicit,
            ann: ann.as_ref().map(|a| bx(at(parenthesize(a), 1))),
            body: bx(parenthesize(body)),
        },
        S::Pi { name, implicit, dom, cod } => S::Pi {
            name: name.clone(),
            implicit: *implicit,
            dom: bx(at(parenthesize(dom), if name.is_some() { 1 } else { 6 })),
            cod: bx(parenthesize(cod)),
        },
        S::App(f, a) => {
            let f2 = match **f {
                S::App(..) => parenthesize(f),
                _ => at(parenthesize(f), 7),
            };
            S::App(bx(f2), bx(at(parenthesize(a), 7)))
        }
        S::Let { name, ann, def, body } => S::Let {
            name: name.clone(),
            ann: ann.as_ref().map(|a| bx(at(parenthesize(a), 6))),
            def: bx(parenthesize(def)),
            body: bx(parenthesize(body)),
        },
        S::Neg(a) => S::Neg(bx(at(parenthesize(a), 4))),
        S::Bin(op, a, b) => match op {
            Op::Mul | Op::Div => {
                // left operands of the chain must be small terms; the last right operand may be a
                // negation
                let l = match **a {
                    S::Bin(Op::Mul | Op::Div, ..) => mul_chain_nonfinal(a),
                    _ => at(parenthesize(a), 6),
                };
                let r = match **b {
                    S::Bin(Op::Mul | Op::Div, ..) => S::Paren(bx(parenthesize(b))),
                    _ => at(parenthesize(b), 4),
                };
                S::Bin(*op, bx(l), bx(r))
            }
            Op::Add | Op::Sub => {
                let l = match **a {
                    S::Bin(Op::Add | Op::Sub, ..) => parenthesize(a),
                    _ => at(parenthesize(a), 4),
                };
                let r = at(parenthesize(b), 4);
                S::Bin(*op, bx(l), bx(r))
            }
            _ => S::Bin(*op, bx(at(parenthesize(a), 3)), bx(at(parenthesize(b), 3))),
        },
        S::If(a, b, c) => S::If(bx(parenthesize(a)), bx(parenthesize(b)), bx(parenthesize(c))),
    }
}

fn mul_chain_nonfinal(s: &S) -> S {
    // `s` is a * / node used as the left operand of another * / node: its own right operand is not
    // final any more, so it must be a small term.
    match s {
        S::Bin(op @ (Op::Mul | Op::Div), a, b) => {
            let l = match **a {
                S::Bin(Op::Mul | Op::Div, ..) => mul_chain_nonfinal(a),
                _ => at(parenthesize(a), 6),
            };
            let r = at(parenthesize(b), 6);
            S::Bin(*op, bx(l), bx(r))
        }
        _ => unreachable!(),
    }
}

pub fn strip_parens(s: &S) -> S {
    match s {
        S::Paren(a) => strip_parens(a),
        S::Type | S::Int | S::Bool | S::True | S::False | S::Lit(_) | S::Var(_) => s.clone(),
        S::Lam { name, implicit, ann, body } => S::Lam {
            name: name.clone(),
            implicit: *implicit,
            ann: ann.as_ref().map(|a| bx(strip_parens(a))),
            body: bx(strip_parens(body)),
        },
        S::Pi { name, implicit, dom, cod } => {
            S::Pi { name: name.clone(), implicit: *implicit, dom: bx(strip_parens(dom)), cod: bx(strip_parens(cod)) }
        }
        S::App(a, b) => S::App(bx(strip_parens(a)), bx(strip_parens(b))),
        S::Let { name, ann, def, body } => S::Let {
            name: name.clone(),
            ann: ann.as_ref().map(|a| bx(strip_parens(a))),
            def: bx(strip_parens(def)),
            body: bx(strip_parens(body)),
        },
        S::Neg(a) => S::Neg(bx(strip_parens(a))),
        S::Bin(o, a, b) => S::Bin(*o, bx(strip_parens(a)), bx(strip_parens(b))),
        S::If(a, b, c) => S::If(bx(strip_parens(a)), bx(strip_parens(b)), bx(strip_parens(c))),
    }
}

pub fn text_of(toks: &[Tok]) -> String {
    super::tok::layout(toks).0
}

// Source text of a semantic surface tree.
pub fn print(s: &S) -> String {
    let mut toks = vec![];
    tokens_verbatim(&parenthesize(s), &mut toks);
    text_of(&toks)
}

// Read a source text with the reference lexer and the grammar model (not with gram's parser): the
// unique derivation mapped to a surface tree with chains re-associated. None if the text is not a
// sentence.
pub fn parse_text(g: &Grammar, text: &str) -> Option<S> {
    let super::lexer::Lexed::Tokens(lt) = super::lexer::lex(text) else { return None };
    let toks: Vec<Tok> = lt.iter().map(|t| Tok { k: t.k, text: text[t.start..t.end].to_owned() }).collect();
    let kinds: Vec<K> = toks.iter().map(|t| t.k).collect();
    let mut parses = super::grammar::Recognizer::new(g, &kinds).parses();
    if parses.len() != 1 {
        return None;
    }
    let tree = parses.pop().unwrap();
    Some(reassoc(&FromTree::new(g, &toks).convert(&tree)))
}
