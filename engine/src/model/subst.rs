// Named reference semantics for shifting and opening (5.4).
//
// A de Bruijn term `t` is read in a context Γ: a list of distinct names, Γ[k] being the name of free
// index k. Bound variables never clash with names because they are not named at all: the model only
// ever looks at *free* occurrences and translates them through name positions.
//   * shifting up by a at cutoff c  = the same named term in Γ with a fresh names inserted at c;
//   * shifting down by a at cutoff c = the same named term in Γ with Γ[c..c+a] removed; undefined
//     exactly when a removed name occurs free;
//   * opening index i with u (shifted by s) = substitution of u for the name Γ[i], where u is read in
//     (Γ − Γ[i]) without its first s names, the result read in Γ − Γ[i].
use super::mterm::{M, R, rc, shift};

// Re-read the term `t` (given in context `from`) in context `to`. `subst`: a name to replace and the
// replacement, already expressed in `to` (at binder depth 0).
pub fn recontext(t: &M, from: &[String], to: &[String], subst: Option<(&str, &M)>, depth: usize) -> Option<M> {
    let r = |x: &M, d: usize| recontext(x, from, to, subst, d).map(rc);
    Some(match t {
        M::Hole(..) => return None,
        M::Type | M::Int | M::Bool | M::True | M::False | M::Lit(_) => t.clone(),
        M::Var(n, i) => {
            if *i < depth {
                t.clone()
            } else {
                let name = from.get(*i - depth)?;
                if let Some((x, u)) = subst
                    && x == name
                {
                    // the replacement is expressed at depth 0 of `to`; lift it under `depth` binders
                    return shift(u, 0, depth as isize);
                }
                let pos = to.iter().position(|m| m == name)?;
                M::Var(n.clone(), depth + pos)
            }
        }
        M::Lam(n, i, a, b) => M::Lam(n.clone(), *i, r(a, depth)?, r(b, depth + 1)?),
        M::Pi(n, i, a, b) => M::Pi(n.clone(), *i, r(a, depth)?, r(b, depth + 1)?),
        M::App(a, b) => M::App(r(a, depth)?, r(b, depth)?),
        M::Let(ds, b) => {
            let d = depth + ds.len();
            let mut nd = vec![];
            for (n, a, e) in ds {
                nd.push((n.clone(), r(a, d)?, r(e, d)?));
            }
            M::Let(nd, r(b, d)?)
        }
        M::Neg(a) => M::Neg(r(a, depth)?),
        M::Bin(o, a, b) => M::Bin(*o, r(a, depth)?, r(b, depth)?),
        M::If(a, b, c) => M::If(r(a, depth)?, r(b, depth)?, r(c, depth)?),
    })
}

pub fn context(n: usize) -> Vec<String> {
    (0..n).map(|i| format!("g{i}")).collect()
}

// Expected result of signed_shift(t, cutoff, amount); None = must fail.
pub fn expected_shift(t: &M, cutoff: usize, amount: isize, width: usize) -> Option<M> {
    let from = context(width);
    let mut to = from.clone();
    if amount >= 0 {
        for j in 0..amount as usize {
            to.insert(cutoff, format!("fresh{j}"));
        }
    } else {
        for _ in 0..(-amount) as usize {
            if cutoff < to.len() {
                to.remove(cutoff);
            }
        }
    }
    recontext(t, &from, &to, None, 0)
}

// Expected result of open(t, index, u, s).
pub fn expected_open(t: &M, index: usize, u: &M, s: usize, width: usize) -> Option<M> {
    let from = context(width);
    let x = from[index].clone();
    let mut to = from.clone();
    to.remove(index);
    // u is read in `to` without its first s names; express it in `to`
    let u_ctx: Vec<String> = to[s..].to_vec();
    let u_in_to = recontext(u, &u_ctx, &to, None, 0)?;
    recontext(t, &from, &to, Some((&x, &u_in_to)), 0)
}

// Expected free variables at a cutoff.
pub fn expected_free(t: &M, cutoff: usize, width: usize) -> std::collections::BTreeSet<usize> {
    // names of Γ that occur free in t, as indices relative to the cutoff
    let mut out = std::collections::BTreeSet::new();
    fn go(t: &M, depth: usize, out: &mut std::collections::BTreeSet<usize>) {
        match t {
            M::Var(_, i) => {
                if *i >= depth {
                    out.insert(*i - depth);
                }
            }
            M::Lam(_, _, a, b) | M::Pi(_, _, a, b) => {
                go(a, depth, out);
                go(b, depth + 1, out);
            }
            M::App(a, b) | M::Bin(_, a, b) => {
                go(a, depth, out);
                go(b, depth, out);
            }
            M::Let(ds, b) => {
                let d = depth + ds.len();
                for (_, a, e) in ds {
                    go(a, d, out);
                    go(e, d, out);
                }
                go(b, d, out);
            }
            M::Neg(a) => go(a, depth, out),
            M::If(a, b, c) => {
                go(a, depth, out);
                go(b, depth, out);
                go(c, depth, out);
            }
            _ => {}
        }
    }
    go(t, 0, &mut out);
    let _ = width;
    out.into_iter().filter(|i| *i >= cutoff).map(|i| i - cutoff).collect()
}
