// Reference interpreter (5.5): environment-based, call-by-value, big-step, on mirror terms.
// Let groups are evaluated in order; every group name is bound to a cell, and reading a cell that is
// not yet a value is reported as `Unavailable` (never silently skipped). Arbitrary-precision integers;
// division is *specified* by the identity a = q*b + r, |r| < |b|, sign(r) in {0, sign(a)} and checked
// by multiplication. Only the chosen branch of `if` is evaluated. Fuel-bounded.
use super::mterm::{M, Op, R};
use num_bigint::BigInt;
use std::{cell::RefCell, rc::Rc};

#[derive(Clone, Debug)]
pub enum Val {
    Int(BigInt),
    Bool(bool),
    // Type-level values.
    Type,
    IntTy,
    BoolTy,
    Pi,  // a function type (not looked into)
    Clo(Env, R), // a function: environment and body
}

impl Val {
    pub fn describe(&self) -> String {
        match self {
            Val::Int(n) => n.to_string(),
            Val::Bool(b) => b.to_string(),
            Val::Type => "type".into(),
            Val::IntTy => "int".into(),
            Val::BoolTy => "bool".into(),
            Val::Pi => "<function type>".into(),
            Val::Clo(..) => "<function>".into(),
        }
    }
    pub fn is_ground(&self) -> bool {
        !matches!(self, Val::Pi | Val::Clo(..))
    }
}

#[derive(Clone, Debug, PartialEq, Eq)]
pub enum Stuck {
    Unavailable(String),
    NotAFunction,
    WrongOperand,
    Hole,
    FreeVariable,
}

#[derive(Clone, Debug)]
pub enum Outcome {
    Value(Val),
    DivisionByZero,
    Stuck(Stuck),
    OutOfFuel,
}

impl Outcome {
    pub fn describe(&self) -> String {
        match self {
            Outcome::Value(v) => format!("value {}", v.describe()),
            Outcome::DivisionByZero => "division by zero".into(),
            Outcome::Stuck(s) => format!("stuck ({s:?})"),
            Outcome::OutOfFuel => "out of fuel".into(),
        }
    }
}

#[derive(Clone, Debug)]
pub enum Slot {
    Val(Val),
    Cell(Rc<RefCell<Option<Val>>>, Rc<str>),
}

#[derive(Clone, Debug)]
pub enum Env {
    Nil,
    Cons(Rc<(Slot, Env)>),
}

impl Env {
    fn push(&self, s: Slot) -> Env {
        Env::Cons(Rc::new((s, self.clone())))
    }
    fn get(&self, mut i: usize) -> Option<&Slot> {
        let mut e = self;
        loop {
            match e {
                Env::Nil => return None,
                Env::Cons(c) => {
                    if i == 0 {
                        return Some(&c.0);
                    }
                    i -= 1;
                    e = &c.1;
                }
            }
        }
    }
}

enum Abort {
    Div,
    Stuck(Stuck),
    Fuel,
}

pub struct Interp {
    pub fuel: u64,
    pub depth: usize,
    pub max_depth: usize,
    cells: Vec<Rc<RefCell<Option<Val>>>>,
}

// Truncating division specified by its defining identity.
pub fn div_trunc(a: &BigInt, b: &BigInt) -> Option<BigInt> {
    let zero = BigInt::from(0);
    if *b == zero {
        return None;
    }
    // magnitude quotient by floor division of absolute values, sign by the sign rule
    let (ma, mb) = (if *a < zero { -a.clone() } else { a.clone() }, if *b < zero { -b.clone() } else { b.clone() });
    // long division on magnitudes via repeated doubling (independent of BigInt's own division)
    let mut q = BigInt::from(0);
    let mut r = ma.clone();
    while r >= mb {
        let mut d = mb.clone();
        let mut m = BigInt::from(1);
        loop {
            let d2 = &d + &d;
            if d2 > r {
                break;
            }
            d = d2;
            m = &m + &m;
        }
        r = r - &d;
        q = q + m;
    }
    let negative = (*a < zero) != (*b < zero);
    let q = if negative { -q } else { q };
    // the identity: a = q*b + r', |r'| < |b|, sign(r') in {0, sign(a)}
    let rem = a - &q * b;
    let mrem = if rem < zero { -rem.clone() } else { rem.clone() };
    assert!(mrem < mb && (rem == zero || (rem < zero) == (*a < zero)), "division identity violated in the reference");
    Some(q)
}

impl Interp {
    pub fn new(fuel: u64) -> Interp {
        Interp { fuel, depth: 0, max_depth: 3000, cells: vec![] }
    }

    pub fn run(&mut self, t: &M) -> Outcome {
        let r = self.eval(&Env::Nil, t);
        // break the reference cycles closure -> environment -> cell -> closure
        for c in self.cells.drain(..) {
            *c.borrow_mut() = None;
        }
        match r {
            Ok(v) => Outcome::Value(v),
            Err(Abort::Div) => Outcome::DivisionByZero,
            Err(Abort::Stuck(s)) => Outcome::Stuck(s),
            Err(Abort::Fuel) => Outcome::OutOfFuel,
        }
    }

    fn eval(&mut self, env: &Env, t: &M) -> Result<Val, Abort> {
        if self.fuel == 0 || self.depth >= self.max_depth {
            return Err(Abort::Fuel);
        }
        self.fuel -= 1;
        self.depth += 1;
        let r = self.eval_inner(env, t);
        self.depth -= 1;
        r
    }

    fn int(&mut self, env: &Env, t: &M) -> Result<BigInt, Abort> {
        match self.eval(env, t)? {
            Val::Int(n) => Ok(n),
            _ => Err(Abort::Stuck(Stuck::WrongOperand)),
        }
    }

    fn eval_inner(&mut self, env: &Env, t: &M) -> Result<Val, Abort> {
        Ok(match t {
            M::Hole(..) => return Err(Abort::Stuck(Stuck::Hole)),
            M::Type => Val::Type,
            M::Int => Val::IntTy,
            M::Bool => Val::BoolTy,
            M::True => Val::Bool(true),
            M::False => Val::Bool(false),
            M::Lit(n) => Val::Int(n.clone()),
            M::Var(_, i) => match env.get(*i) {
                None => return Err(Abort::Stuck(Stuck::FreeVariable)),
                Some(Slot::Val(v)) => v.clone(),
                Some(Slot::Cell(c, name)) => match &*c.borrow() {
                    Some(v) => v.clone(),
                    None => return Err(Abort::Stuck(Stuck::Unavailable(name.to_string()))),
                },
            },
            M::Lam(_, _, _, body) => Val::Clo(env.clone(), body.clone()),
            M::Pi(..) => Val::Pi,
            M::App(f, a) => {
                let fv = self.eval(env, f)?;
                let av = self.eval(env, a)?;
                match fv {
                    Val::Clo(cenv, body) => self.eval(&cenv.push(Slot::Val(av)), &body)?,
                    _ => return Err(Abort::Stuck(Stuck::NotAFunction)),
                }
            }
            M::Let(ds, body) => {
                let mut e = env.clone();
                let mut cells = vec![];
                for (name, _, _) in ds {
                    let c = Rc::new(RefCell::new(None));
                    cells.push(c.clone());
                    self.cells.push(c.clone());
                    e = e.push(Slot::Cell(c, name.clone()));
                }
                // Definitions that are values as written (functions in particular) are available to the
                // whole group; the computed ones are evaluated in order.
                let is_value = |d: &M| matches!(d, M::Lam(..) | M::Pi(..) | M::Type | M::Int | M::Bool | M::True | M::False | M::Lit(_));
                for (i, (_, _, d)) in ds.iter().enumerate() {
                    if is_value(d) {
                        let v = self.eval(&e, d)?;
                        *cells[i].borrow_mut() = Some(v);
                    }
                }
                for (i, (_, _, d)) in ds.iter().enumerate() {
                    if !is_value(d) {
                        let v = self.eval(&e, d)?;
                        *cells[i].borrow_mut() = Some(v);
                    }
                }
                self.eval(&e, body)?
            }
            M::Neg(a) => Val::Int(-self.int(env, a)?),
            M::Bin(op, a, b) => {
                let x = self.int(env, a)?;
                let y = self.int(env, b)?;
                match op {
                    Op::Add => Val::Int(x + y),
                    Op::Sub => Val::Int(x - y),
                    Op::Mul => Val::Int(x * y),
                    Op::Div => match div_trunc(&x, &y) {
                        Some(q) => Val::Int(q),
                        None => return Err(Abort::Div),
                    },
                    Op::Lt => Val::Bool(x < y),
                    Op::Le => Val::Bool(x <= y),
                    Op::Eq => Val::Bool(x == y),
                    Op::Gt => Val::Bool(x > y),
                    Op::Ge => Val::Bool(x >= y),
                }
            }
            M::If(c, t, e) => match self.eval(env, c)? {
                Val::Bool(true) => self.eval(env, t)?,
                Val::Bool(false) => self.eval(env, e)?,
                _ => return Err(Abort::Stuck(Stuck::WrongOperand)),
            },
        })
    }
}

pub fn run(t: &M, fuel: u64) -> Outcome {
    Interp::new(fuel).run(t)
}
