// Specification of a diagnostic listing (5.7) and a reader for gram's rendered listings.

#[derive(Clone, PartialEq, Eq, Debug)]
pub struct ShownLine {
    pub number: usize,       // 1-based
    pub content: String,     // the line as shown (trailing whitespace trimmed)
    pub marked: (usize, usize), // [from, to) in *character* columns; from == to when nothing is marked
}

// Read a listing rendered without colours: pairs of physical lines
//   "{number:>w} │ {content}"   and   "{w spaces} {sep}[ {spaces}{overline..}]".
pub fn read_listing(rendered: &str) -> Result<Vec<ShownLine>, String> {
    if rendered.is_empty() {
        return Ok(vec![]);
    }
    let phys: Vec<&str> = rendered.split('\n').collect();
    if phys.len() % 2 != 0 {
        return Err(format!("odd number of physical lines ({})", phys.len()));
    }
    let mut out = vec![];
    for pair in phys.chunks(2) {
        let (text, marks) = (pair[0], pair[1]);
        let sep = text.find(" \u{2502} ").ok_or_else(|| format!("no gutter in {text:?}"))?;
        let number: usize = text[..sep].trim().parse().map_err(|_| format!("bad line number in {text:?}"))?;
        let content = text[sep + " \u{2502} ".len()..].to_owned();
        let w = text[..sep].chars().count();
        let mchars: Vec<char> = marks.chars().collect();
        if mchars.len() < w + 2 || mchars[..w].iter().any(|c| *c != ' ') || mchars[w] != ' ' || !(mchars[w + 1] == ' ' || mchars[w + 1] == '\u{250a}') {
            return Err(format!("bad marker line {marks:?} for gutter width {w}"));
        }
        let rest = &mchars[w + 2..];
        let marked = if rest.is_empty() {
            (0, 0)
        } else {
            if rest[0] != ' ' {
                return Err(format!("bad marker line {marks:?}"));
            }
            let body = &rest[1..];
            let spaces = body.iter().take_while(|c| **c == ' ').count();
            let overs = body[spaces..].iter().take_while(|c| **c == '\u{203e}').count();
            if spaces + overs != body.len() || overs == 0 {
                return Err(format!("bad marker line {marks:?}"));
            }
            (spaces, spaces + overs)
        };
        out.push(ShownLine { number, content, marked });
    }
    Ok(out)
}

#[derive(Clone, PartialEq, Eq, Debug)]
pub struct ExpectedLine {
    pub number: usize,
    pub content: String,
    // every character column that must be marked / may be marked
    pub must: (usize, usize),
    pub may: (usize, usize),
}

// The lines a listing of byte range [start, end) must show, start < end.
pub fn expected_listing(text: &str, start: usize, end: usize) -> Vec<ExpectedLine> {
    let mut out = vec![];
    let mut off = 0;
    for (i, line) in text.split('\n').enumerate() {
        let line_start = off;
        let line_end = off + line.len(); // position of the '\n' (or end of text)
        off = line_end + 1;
        // the line (including its line break character) intersects the range
        if !(line_start < end && start < line_end + 1) {
            continue;
        }
        let trimmed = line.trim_end();
        let col = |byte: usize| -> usize { trimmed[..byte.min(trimmed.len())].chars().count() };
        let lo_b = start.saturating_sub(line_start).min(trimmed.len());
        let hi_b = (end - line_start).min(trimmed.len());
        let (lo, hi) = (col(lo_b), col(hi_b));
        // what must be marked: the range's characters on this line, leading whitespace aside
        let seg = if lo_b <= hi_b { &trimmed[lo_b..hi_b] } else { "" };
        let lead = seg.chars().take_while(|c| c.is_whitespace()).count();
        let must_lo = (lo + lead).min(hi);
        out.push(ExpectedLine { number: i + 1, content: trimmed.to_owned(), must: (must_lo, hi.max(must_lo)), may: (lo, hi.max(lo)) });
    }
    out
}

// Compare a rendered listing with the expectation. Ok(()) or a description of the difference.
pub fn compare(shown: &[ShownLine], want: &[ExpectedLine]) -> Result<(), String> {
    if shown.len() != want.len() {
        return Err(format!(
            "shows lines {:?}, expected lines {:?}",
            shown.iter().map(|l| l.number).collect::<Vec<_>>(),
            want.iter().map(|l| l.number).collect::<Vec<_>>()
        ));
    }
    for (s, w) in shown.iter().zip(want) {
        if s.number != w.number {
            return Err(format!("line number {} where {} was expected", s.number, w.number));
        }
        if s.content != w.content {
            return Err(format!("line {} shown as {:?}, source has {:?}", s.number, s.content, w.content));
        }
        let (a, b) = s.marked;
        if a == b {
            if w.must.0 != w.must.1 {
                return Err(format!("line {}: nothing marked, expected columns {}..{}", s.number, w.must.0, w.must.1));
            }
        } else if !(w.may.0 <= a && a <= w.must.0 && w.must.1 <= b && b <= w.may.1) {
            return Err(format!(
                "line {}: columns {a}..{b} marked, expected {}..{} (at most {}..{})",
                s.number, w.must.0, w.must.1, w.may.0, w.may.1
            ));
        }
    }
    Ok(())
}

// Split a diagnostic message into its headline and its listings (a message may carry two listings).
pub fn split_message(message: &str) -> (String, Vec<String>) {
    let mut parts = message.split("\n\n");
    let head = parts.next().unwrap_or("").to_owned();
    let mut listings = vec![];
    for p in parts {
        if p.contains(" \u{2502} ") {
            listings.push(p.to_owned());
        }
    }
    (head, listings)
}
