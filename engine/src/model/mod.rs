pub mod grammar;
pub mod lexer;
pub mod mterm;
pub mod surface;
pub mod tok;
pub mod subst;
pub mod listing;
