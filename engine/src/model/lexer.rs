// Declarative reference lexer (5.2): maximal munch over the token shapes stated by C09, the
// line-break rule stated by C10. Shares no code with gram's tokenizer.
use super::tok::K;
use num_bigint::BigInt;

#[derive(Clone, PartialEq, Eq, Debug)]
pub struct LTok {
    pub k: K,
    pub start: usize,
    pub end: usize,
}

#[derive(Clone, PartialEq, Eq, Debug)]
pub enum Lexed {
    Tokens(Vec<LTok>),
    // byte offsets of the illegal characters, in order
    Illegal(Vec<usize>),
}

const KEYWORDS: [(&str, K); 8] = [
    ("bool", K::Boolean),
    ("else", K::Else),
    ("false", K::False),
    ("if", K::If),
    ("int", K::Integer),
    ("then", K::Then),
    ("true", K::True),
    ("type", K::Type),
];

const SYMBOLS2: [(&str, K); 5] = [
    ("->", K::ThinArrow),
    ("<=", K::LessThanOrEqualTo),
    ("==", K::DoubleEquals),
    ("=>", K::ThickArrow),
    (">=", K::GreaterThanOrEqualTo),
];

const SYMBOLS1: [(char, K); 14] = [
    ('*', K::Asterisk),
    (':', K::Colon),
    ('{', K::LeftCurly),
    ('(', K::LeftParen),
    ('+', K::Plus),
    ('}', K::RightCurly),
    (')', K::RightParen),
    ('/', K::Slash),
    (';', K::Semicolon),
    ('-', K::Minus),
    ('<', K::LessThan),
    ('=', K::Equals),
    ('>', K::GreaterThan),
    ('\n', K::LineBreak),
];

// Raw scan: every token including every line break; comments and other whitespace dropped.
// `comment_defect` switches on the model of finding F-COMMENT (see known_findings.json).
pub fn scan(text: &str, comment_defect: bool) -> (Vec<LTok>, Vec<usize>) {
    let mut toks = vec![];
    let mut illegal = vec![];
    let mut i = 0;
    let bytes = text.as_bytes();
    while i < text.len() {
        let c = text[i..].chars().next().unwrap();
        let w = c.len_utf8();
        if c == '#' {
            if comment_defect {
                // The defect: the character after `#` is consumed unconditionally, and the scan stops
                // before a line break only if that line break sits at byte index j + 1 of the last
                // consumed character (so only after a one-byte character).
                let mut it = text[i + 1..].char_indices().map(|(j, d)| (i + 1 + j, d)).peekable();
                let mut end = text.len();
                while let Some((j, _)) = it.next() {
                    if it.peek() == Some(&(j + 1, '\n')) {
                        end = j + 1;
                        break;
                    }
                }
                i = end;
            } else {
                // A comment runs to the end of its line; the line break itself is not part of it.
                i = text[i..].find('\n').map_or(text.len(), |j| i + j);
            }
            continue;
        }
        if let Some((s, k)) = SYMBOLS2.iter().find(|(s, _)| text[i..].starts_with(s)) {
            toks.push(LTok { k: *k, start: i, end: i + s.len() });
            i += s.len();
            continue;
        }
        if let Some((_, k)) = SYMBOLS1.iter().find(|(s, _)| *s == c) {
            toks.push(LTok { k: *k, start: i, end: i + 1 });
            i += 1;
            continue;
        }
        if c.is_alphabetic() || c == '_' {
            let mut e = i + w;
            while e < text.len() {
                let d = text[e..].chars().next().unwrap();
                if d.is_alphanumeric() || d == '_' {
                    e += d.len_utf8();
                } else {
                    break;
                }
            }
            let word = &text[i..e];
            let k = KEYWORDS.iter().find(|(s, _)| *s == word).map_or(K::Identifier, |(_, k)| *k);
            toks.push(LTok { k, start: i, end: e });
            i = e;
            continue;
        }
        if c.is_ascii_digit() {
            let mut e = i + 1;
            while e < text.len() && bytes[e].is_ascii_digit() {
                e += 1;
            }
            toks.push(LTok { k: K::IntegerLiteral, start: i, end: e });
            i = e;
            continue;
        }
        if c.is_whitespace() {
            i += w;
            continue;
        }
        illegal.push(i);
        i += w;
    }
    (toks, illegal)
}

// The line-break rule: a line break is a terminator exactly when the token before it can end an
// expression and the token after it can start one; consecutive line breaks collapse; a line break
// with nothing after it is dropped.
pub fn apply_line_break_rule(raw: &[LTok]) -> Vec<LTok> {
    let mut out: Vec<LTok> = vec![];
    let mut i = 0;
    while i < raw.len() {
        if raw[i].k != K::LineBreak {
            out.push(raw[i].clone());
            i += 1;
            continue;
        }
        // a run of line breaks (comments and whitespace between them are already gone)
        let first = i;
        while i < raw.len() && raw[i].k == K::LineBreak {
            i += 1;
        }
        let before = out.last().map(|t| t.k);
        let after = raw.get(i).map(|t| t.k);
        if let (Some(b), Some(a)) = (before, after)
            && b.is_ender()
            && a.is_starter()
        {
            out.push(raw[first].clone());
        }
    }
    out
}

pub fn lex(text: &str) -> Lexed {
    lex_with(text, false)
}

pub fn lex_with(text: &str, comment_defect: bool) -> Lexed {
    let (raw, illegal) = scan(text, comment_defect);
    if !illegal.is_empty() {
        return Lexed::Illegal(illegal);
    }
    Lexed::Tokens(apply_line_break_rule(&raw))
}

pub fn literal_value(text: &str) -> BigInt {
    // decimal value computed digit by digit (does not call the same parsing routine as gram)
    let mut v = BigInt::from(0);
    for b in text.bytes() {
        v = v * 10 + BigInt::from(b - b'0');
    }
    v
}
