// Mirror terms: an owned copy of a gram `term::Term` that the reference models work on. Resolved
// holes are followed (their shift applied with the model's own shift function), unresolved holes are
// numbered by cell identity.
use num_bigint::BigInt;
use std::{collections::HashMap, rc::Rc};

#[derive(Clone, Copy, PartialEq, Eq, Hash, Debug, PartialOrd, Ord)]
pub enum Op {
    Add,
    Sub,
    Mul,
    Div,
    Lt,
    Le,
    Eq,
    Gt,
    Ge,
}

impl Op {
    pub fn text(self) -> &'static str {
        match self {
            Op::Add => "+",
            Op::Sub => "-",
            Op::Mul => "*",
            Op::Div => "/",
            Op::Lt => "<",
            Op::Le => "<=",
            Op::Eq => "==",
            Op::Gt => ">",
            Op::Ge => ">=",
        }
    }
    pub fn is_arith(self) -> bool {
        matches!(self, Op::Add | Op::Sub | Op::Mul | Op::Div)
    }
    pub const ALL: [Op; 9] = [Op::Add, Op::Sub, Op::Mul, Op::Div, Op::Lt, Op::Le, Op::Eq, Op::Gt, Op::Ge];
}

pub type R = Rc<M>;

#[derive(Clone, PartialEq, Eq, Debug, Hash)]
pub enum M {
    Hole(usize, usize), // (cell id, shift)
    Type,
    Int,
    Bool,
    True,
    False,
    Lit(BigInt),
    Var(Rc<str>, usize),
    Lam(Rc<str>, bool, R, R),
    Pi(Rc<str>, bool, R, R),
    App(R, R),
    Let(Vec<(Rc<str>, R, R)>, R),
    Neg(R),
    Bin(Op, R, R),
    If(R, R, R),
}

pub fn rc(m: M) -> R {
    Rc::new(m)
}

impl M {
    pub fn size(&self) -> usize {
        match self {
            M::Hole(..) | M::Type | M::Int | M::Bool | M::True | M::False | M::Lit(_) | M::Var(..) => 1,
            M::Lam(_, _, a, b) | M::Pi(_, _, a, b) | M::App(a, b) | M::Bin(_, a, b) => 1 + a.size() + b.size(),
            M::Let(ds, b) => 1 + b.size() + ds.iter().map(|(_, a, d)| a.size() + d.size()).sum::<usize>(),
            M::Neg(a) => 1 + a.size(),
            M::If(a, b, c) => 1 + a.size() + b.size() + c.size(),
        }
    }

    pub fn has_hole(&self) -> bool {
        match self {
            M::Hole(..) => true,
            M::Type | M::Int | M::Bool | M::True | M::False | M::Lit(_) | M::Var(..) => false,
            M::Lam(_, _, a, b) | M::Pi(_, _, a, b) | M::App(a, b) | M::Bin(_, a, b) => a.has_hole() || b.has_hole(),
            M::Let(ds, b) => b.has_hole() || ds.iter().any(|(_, a, d)| a.has_hole() || d.has_hole()),
            M::Neg(a) => a.has_hole(),
            M::If(a, b, c) => a.has_hole() || b.has_hole() || c.has_hole(),
        }
    }

    // Structural equality ignoring binder names.
    pub fn alpha_eq(&self, o: &M) -> bool {
        match (self, o) {
            (M::Hole(a, s), M::Hole(b, t)) => a == b && s == t,
            (M::Type, M::Type) | (M::Int, M::Int) | (M::Bool, M::Bool) | (M::True, M::True) | (M::False, M::False) => true,
            (M::Lit(a), M::Lit(b)) => a == b,
            (M::Var(_, i), M::Var(_, j)) => i == j,
            (M::Lam(_, i, a, b), M::Lam(_, j, c, d)) | (M::Pi(_, i, a, b), M::Pi(_, j, c, d)) => {
                i == j && a.alpha_eq(c) && b.alpha_eq(d)
            }
            (M::App(a, b), M::App(c, d)) => a.alpha_eq(c) && b.alpha_eq(d),
            (M::Bin(o1, a, b), M::Bin(o2, c, d)) => o1 == o2 && a.alpha_eq(c) && b.alpha_eq(d),
            (M::Let(d1, b1), M::Let(d2, b2)) => {
                d1.len() == d2.len()
                    && d1.iter().zip(d2).all(|((_, a, d), (_, c, e))| a.alpha_eq(c) && d.alpha_eq(e))
                    && b1.alpha_eq(b2)
            }
            (M::Neg(a), M::Neg(b)) => a.alpha_eq(b),
            (M::If(a, b, c), M::If(d, e, f)) => a.alpha_eq(d) && b.alpha_eq(e) && c.alpha_eq(f),
            _ => false,
        }
    }

    // Equality including binder names and implicitness; unresolved holes compare by shift only.
    pub fn same_tree(&self, o: &M) -> bool {
        match (self, o) {
            (M::Hole(_, s), M::Hole(_, t)) => s == t,
            (M::Type, M::Type) | (M::Int, M::Int) | (M::Bool, M::Bool) | (M::True, M::True) | (M::False, M::False) => true,
            (M::Lit(a), M::Lit(b)) => a == b,
            (M::Var(n, i), M::Var(m, j)) => i == j && n == m,
            (M::Lam(n, i, a, b), M::Lam(m, j, c, d)) | (M::Pi(n, i, a, b), M::Pi(m, j, c, d)) => {
                n == m && i == j && a.same_tree(c) && b.same_tree(d)
            }
            (M::App(a, b), M::App(c, d)) => a.same_tree(c) && b.same_tree(d),
            (M::Bin(o1, a, b), M::Bin(o2, c, d)) => o1 == o2 && a.same_tree(c) && b.same_tree(d),
            (M::Let(d1, b1), M::Let(d2, b2)) => {
                d1.len() == d2.len()
                    && d1.iter().zip(d2).all(|((n, a, d), (m, c, e))| n == m && a.same_tree(c) && d.same_tree(e))
                    && b1.same_tree(b2)
            }
            (M::Neg(a), M::Neg(b)) => a.same_tree(b),
            (M::If(a, b, c), M::If(d, e, f)) => a.same_tree(d) && b.same_tree(e) && c.same_tree(f),
            _ => false,
        }
    }

    // A compact canonical rendering without binder names (state keys, diagnostics).
    pub fn key(&self) -> String {
        let mut s = String::new();
        self.key_into(&mut s);
        s
    }
    fn key_into(&self, s: &mut String) {
        match self {
            M::Hole(c, sh) => s.push_str(&format!("?{c}^{sh}")),
            M::Type => s.push_str("type"),
            M::Int => s.push_str("int"),
            M::Bool => s.push_str("bool"),
            M::True => s.push_str("true"),
            M::False => s.push_str("false"),
            M::Lit(n) => s.push_str(&n.to_string()),
            M::Var(_, i) => s.push_str(&format!("#{i}")),
            M::Lam(_, imp, a, b) => {
                s.push_str(if *imp { "(\\{" } else { "(\\(" });
                a.key_into(s);
                s.push_str(").");
                b.key_into(s);
                s.push(')');
            }
            M::Pi(_, imp, a, b) => {
                s.push_str(if *imp { "(P{" } else { "(P(" });
                a.key_into(s);
                s.push_str(").");
                b.key_into(s);
                s.push(')');
            }
            M::App(a, b) => {
                s.push('(');
                a.key_into(s);
                s.push(' ');
                b.key_into(s);
                s.push(')');
            }
            M::Let(ds, b) => {
                s.push_str("(let");
                for (_, a, d) in ds {
                    s.push_str(" [");
                    a.key_into(s);
                    s.push_str(" = ");
                    d.key_into(s);
                    s.push(']');
                }
                s.push_str(" in ");
                b.key_into(s);
                s.push(')');
            }
            M::Neg(a) => {
                s.push_str("(-");
                a.key_into(s);
                s.push(')');
            }
            M::Bin(o, a, b) => {
                s.push('(');
                a.key_into(s);
                s.push(' ');
                s.push_str(o.text());
                s.push(' ');
                b.key_into(s);
                s.push(')');
            }
            M::If(a, b, c) => {
                s.push_str("(if ");
                a.key_into(s);
                s.push_str(" then ");
                b.key_into(s);
                s.push_str(" else ");
                c.key_into(s);
                s.push(')');
            }
        }
    }

    // Like `key`, with binder names (for messages).
    pub fn show(&self) -> String {
        match self {
            M::Hole(c, sh) => format!("?{c}^{sh}"),
            M::Type => "type".into(),
            M::Int => "int".into(),
            M::Bool => "bool".into(),
            M::True => "true".into(),
            M::False => "false".into(),
            M::Lit(n) => n.to_string(),
            M::Var(n, i) => format!("{n}#{i}"),
            M::Lam(n, imp, a, b) => {
                if *imp {
                    format!("({{{n} : {}}} => {})", a.show(), b.show())
                } else {
                    format!("(({n} : {}) => {})", a.show(), b.show())
                }
            }
            M::Pi(n, imp, a, b) => {
                if *imp {
                    format!("({{{n} : {}}} -> {})", a.show(), b.show())
                } else {
                    format!("(({n} : {}) -> {})", a.show(), b.show())
                }
            }
            M::App(a, b) => format!("({} {})", a.show(), b.show()),
            M::Let(ds, b) => {
                let mut s = String::from("(");
                for (n, a, d) in ds {
                    s.push_str(&format!("{n} : {} = {}; ", a.show(), d.show()));
                }
                s.push_str(&b.show());
                s.push(')');
                s
            }
            M::Neg(a) => format!("(-{})", a.show()),
            M::Bin(o, a, b) => format!("({} {} {})", a.show(), o.text(), b.show()),
            M::If(a, b, c) => format!("(if {} then {} else {})", a.show(), b.show(), c.show()),
        }
    }
}

// The model's own index shifting: add `amount` to every variable index >= cutoff (and to every hole
// shift >= cutoff, mirroring how a hole stands for a term living `shift` binders further out).
// Returns None when a variable would become unbound.
pub fn shift(m: &M, cutoff: usize, amount: isize) -> Option<M> {
    Some(match m {
        M::Hole(c, s) => {
            if *s >= cutoff {
                let n = *s as isize + amount;
                if n < cutoff as isize {
                    return None;
                }
                M::Hole(*c, n as usize)
            } else {
                m.clone()
            }
        }
        M::Type | M::Int | M::Bool | M::True | M::False | M::Lit(_) => m.clone(),
        M::Var(n, i) => {
            if *i >= cutoff {
                let j = *i as isize + amount;
                if j < cutoff as isize {
                    return None;
                }
                M::Var(n.clone(), j as usize)
            } else {
                m.clone()
            }
        }
        M::Lam(n, i, a, b) => M::Lam(n.clone(), *i, rc(shift(a, cutoff, amount)?), rc(shift(b, cutoff + 1, amount)?)),
        M::Pi(n, i, a, b) => M::Pi(n.clone(), *i, rc(shift(a, cutoff, amount)?), rc(shift(b, cutoff + 1, amount)?)),
        M::App(a, b) => M::App(rc(shift(a, cutoff, amount)?), rc(shift(b, cutoff, amount)?)),
        M::Let(ds, b) => {
            let c = cutoff + ds.len();
            let mut nd = vec![];
            for (n, a, d) in ds {
                nd.push((n.clone(), rc(shift(a, c, amount)?), rc(shift(d, c, amount)?)));
            }
            M::Let(nd, rc(shift(b, c, amount)?))
        }
        M::Neg(a) => M::Neg(rc(shift(a, cutoff, amount)?)),
        M::Bin(o, a, b) => M::Bin(*o, rc(shift(a, cutoff, amount)?), rc(shift(b, cutoff, amount)?)),
        M::If(a, b, c) => M::If(rc(shift(a, cutoff, amount)?), rc(shift(b, cutoff, amount)?), rc(shift(c, cutoff, amount)?)),
    })
}

pub fn free_vars(m: &M, cutoff: usize, out: &mut std::collections::BTreeSet<usize>) {
    match m {
        M::Hole(..) | M::Type | M::Int | M::Bool | M::True | M::False | M::Lit(_) => {}
        M::Var(_, i) => {
            if *i >= cutoff {
                out.insert(i - cutoff);
            }
        }
        M::Lam(_, _, a, b) | M::Pi(_, _, a, b) => {
            free_vars(a, cutoff, out);
            free_vars(b, cutoff + 1, out);
        }
        M::App(a, b) | M::Bin(_, a, b) => {
            free_vars(a, cutoff, out);
            free_vars(b, cutoff, out);
        }
        M::Let(ds, b) => {
            let c = cutoff + ds.len();
            for (_, a, d) in ds {
                free_vars(a, c, out);
                free_vars(d, c, out);
            }
            free_vars(b, c, out);
        }
        M::Neg(a) => free_vars(a, cutoff, out),
        M::If(a, b, c) => {
            free_vars(a, cutoff, out);
            free_vars(b, cutoff, out);
            free_vars(c, cutoff, out);
        }
    }
}

// Mirroring of real terms.
pub struct Mirror {
    cells: HashMap<usize, usize>, // cell address -> id
    pub keep: Vec<Rc<dyn std::any::Any>>, // keeps cells alive so that addresses stay unique
    pub cyclic: bool,
    pub max_depth: usize,
    // nodes produced so far: following solved holes can blow up (or never end) on cyclic solutions
    pub nodes: usize,
}

impl Mirror {
    pub fn new() -> Mirror {
        Mirror { cells: HashMap::new(), keep: vec![], cyclic: false, max_depth: 0, nodes: 0 }
    }

    pub fn cell_id<'a>(&mut self, cell: &Rc<std::cell::RefCell<Option<crate::term::Term<'a>>>>) -> usize {
        let addr = Rc::as_ptr(cell) as usize;
        let n = self.cells.len();
        *self.cells.entry(addr).or_insert(n)
    }

    pub fn cells_seen(&self) -> usize {
        self.cells.len()
    }

    pub fn mirror(&mut self, t: &crate::term::Term) -> M {
        self.go(t, 0)
    }

    fn go(&mut self, t: &crate::term::Term, depth: usize) -> M {
        use crate::term::Variant as V;
        self.nodes += 1;
        if depth > 400 || self.nodes > 50_000 {
            self.cyclic = true;
            return M::Hole(usize::MAX, 0);
        }
        self.max_depth = self.max_depth.max(depth);
        let r = |s: &mut Mirror, x: &crate::term::Term| rc(s.go(x, depth + 1));
        match &t.variant {
            V::Unifier(cell, sh) => {
                let inner = { cell.borrow().clone() };
                match inner {
                    Some(sub) => {
                        let m = self.go(&sub, depth + 1);
                        if self.cyclic {
                            return M::Hole(usize::MAX, 0);
                        }
                        // the copy made by shifting counts towards the budget (a chain of solved holes
                        // would otherwise cost depth x size)
                        if *sh == 0 {
                            m
                        } else {
                            self.nodes += m.size();
                            shift(&m, 0, *sh as isize).unwrap()
                        }
                    }
                    None => {
                        let id = self.cell_id(cell);
                        M::Hole(id, *sh)
                    }
                }
            }
            V::Type => M::Type,
            V::Variable(n, i) => M::Var(Rc::from(*n), *i),
            V::Lambda(n, imp, a, b) => M::Lam(Rc::from(*n), *imp, r(self, a), r(self, b)),
            V::Pi(n, imp, a, b) => M::Pi(Rc::from(*n), *imp, r(self, a), r(self, b)),
            V::Application(a, b) => M::App(r(self, a), r(self, b)),
            V::Let(ds, b) => {
                let mut nd = vec![];
                for (n, a, d) in ds {
                    nd.push((Rc::from(*n), r(self, a), r(self, d)));
                }
                M::Let(nd, r(self, b))
            }
            V::Integer => M::Int,
            V::IntegerLiteral(n) => M::Lit(n.clone()),
            V::Negation(a) => M::Neg(r(self, a)),
            V::Sum(a, b) => M::Bin(Op::Add, r(self, a), r(self, b)),
            V::Difference(a, b) => M::Bin(Op::Sub, r(self, a), r(self, b)),
            V::Product(a, b) => M::Bin(Op::Mul, r(self, a), r(self, b)),
            V::Quotient(a, b) => M::Bin(Op::Div, r(self, a), r(self, b)),
            V::LessThan(a, b) => M::Bin(Op::Lt, r(self, a), r(self, b)),
            V::LessThanOrEqualTo(a, b) => M::Bin(Op::Le, r(self, a), r(self, b)),
            V::EqualTo(a, b) => M::Bin(Op::Eq, r(self, a), r(self, b)),
            V::GreaterThan(a, b) => M::Bin(Op::Gt, r(self, a), r(self, b)),
            V::GreaterThanOrEqualTo(a, b) => M::Bin(Op::Ge, r(self, a), r(self, b)),
            V::Boolean => M::Bool,
            V::True => M::True,
            V::False => M::False,
            V::If(a, b, c) => M::If(r(self, a), r(self, b), r(self, c)),
        }
    }
}

pub fn mirror(t: &crate::term::Term) -> M {
    Mirror::new().mirror(t)
}

// Build a real term (without source ranges) from a mirror term. Names are leaked: the engine's
// worker processes are short-lived and the number of distinct names is tiny.
pub fn intern(name: &str) -> &'static str {
    use std::sync::Mutex;
    static POOL: Mutex<Vec<&'static str>> = Mutex::new(Vec::new());
    let mut p = POOL.lock().unwrap();
    if let Some(s) = p.iter().find(|s| **s == name) {
        return s;
    }
    let s: &'static str = Box::leak(name.to_owned().into_boxed_str());
    p.push(s);
    s
}

pub fn to_real(m: &M, cells: &mut HashMap<usize, Rc<std::cell::RefCell<Option<crate::term::Term<'static>>>>>) -> crate::term::Term<'static> {
    use crate::term::{Term, Variant as V};
    let mut r = |x: &M| Rc::new(to_real(x, cells));
    let variant = match m {
        M::Hole(c, s) => {
            let cell = cells.entry(*c).or_insert_with(|| Rc::new(std::cell::RefCell::new(None))).clone();
            V::Unifier(cell, *s)
        }
        M::Type => V::Type,
        M::Int => V::Integer,
        M::Bool => V::Boolean,
        M::True => V::True,
        M::False => V::False,
        M::Lit(n) => V::IntegerLiteral(n.clone()),
        M::Var(n, i) => V::Variable(intern(n), *i),
        M::Lam(n, i, a, b) => V::Lambda(intern(n), *i, r(a), r(b)),
        M::Pi(n, i, a, b) => V::Pi(intern(n), *i, r(a), r(b)),
        M::App(a, b) => V::Application(r(a), r(b)),
        M::Let(ds, b) => {
            let mut nd = vec![];
            for (n, a, d) in ds {
                nd.push((intern(n), r(a), r(d)));
            }
            V::Let(nd, r(b))
        }
        M::Neg(a) => V::Negation(r(a)),
        M::Bin(o, a, b) => {
            let (a, b) = (r(a), r(b));
            match o {
                Op::Add => V::Sum(a, b),
                Op::Sub => V::Difference(a, b),
                Op::Mul => V::Product(a, b),
                Op::Div => V::Quotient(a, b),
                Op::Lt => V::LessThan(a, b),
                Op::Le => V::LessThanOrEqualTo(a, b),
                Op::Eq => V::EqualTo(a, b),
                Op::Gt => V::GreaterThan(a, b),
                Op::Ge => V::GreaterThanOrEqualTo(a, b),
            }
        }
        M::If(a, b, c) => V::If(r(a), r(b), r(c)),
    };
    Term { source_range: None, variant }
}
