// Reference model of the published grammar: reads /repo/grammar.y at run time, enumerates its
// derivation trees by token length (with memoised counts and unranking, so a shard can be produced
// without materialising the space), and recognises arbitrary token sequences with a memoised
// span parser that returns *all* derivations (capped) — the latter is a second, independent
// algorithm over the same rules, used to cross-examine the enumerator and every printer.
use super::tok::K;
use std::collections::HashMap;

#[derive(Clone, Copy, PartialEq, Eq, Hash, Debug)]
pub enum Sym {
    T(K),
    N(usize),
}

#[derive(Clone, Debug)]
pub struct Grammar {
    pub nts: Vec<String>,
    pub alts: Vec<Vec<Vec<Sym>>>,
    pub start: usize,
}

#[derive(Clone, PartialEq, Eq, Debug)]
pub enum Tree {
    Leaf(K),
    Node { nt: usize, alt: usize, kids: Vec<Tree> },
}

impl Tree {
    pub fn yield_into(&self, out: &mut Vec<K>) {
        match self {
            Tree::Leaf(k) => out.push(*k),
            Tree::Node { kids, .. } => {
                for k in kids {
                    k.yield_into(out);
                }
            }
        }
    }
    pub fn tokens(&self) -> Vec<K> {
        let mut v = vec![];
        self.yield_into(&mut v);
        v
    }
}

pub fn grammar_path() -> String {
    format!("{}/grammar.y", crate::infra::repo_dir())
}

impl Grammar {
    pub fn load() -> Grammar {
        let text = std::fs::read_to_string(grammar_path())
            .unwrap_or_else(|e| crate::infra::machinery_exit(&format!("cannot read grammar.y: {e}")));
        Grammar::parse(&text)
    }

    pub fn parse(text: &str) -> Grammar {
        // Strip /* */ comments.
        let mut clean = String::new();
        let mut rest = text;
        while let Some(i) = rest.find("/*") {
            clean.push_str(&rest[..i]);
            clean.push(' ');
            match rest[i..].find("*/") {
                Some(j) => rest = &rest[i + j + 2..],
                None => {
                    rest = "";
                }
            }
        }
        clean.push_str(rest);
        let body = clean.splitn(2, "%%").nth(1).unwrap_or_else(|| {
            crate::infra::machinery_exit("grammar.y has no %% section");
        });
        let body = body.splitn(2, "%%").next().unwrap();
        // Words and punctuation.
        let mut words: Vec<String> = vec![];
        let mut cur = String::new();
        for c in body.chars() {
            if c.is_alphanumeric() || c == '_' || c == '%' {
                cur.push(c);
            } else {
                if !cur.is_empty() {
                    words.push(std::mem::take(&mut cur));
                }
                if c == ':' || c == '|' || c == ';' {
                    words.push(c.to_string());
                }
            }
        }
        if !cur.is_empty() {
            words.push(cur);
        }
        // Rules: `name : alt | alt ... ;` where the final `;` may be missing (a rule also ends where
        // the next `name :` starts).
        let mut raw: Vec<(String, Vec<Vec<String>>)> = vec![];
        let mut i = 0;
        while i < words.len() {
            if i + 1 < words.len() && words[i + 1] == ":" {
                let name = words[i].clone();
                i += 2;
                let mut alts = vec![vec![]];
                while i < words.len() {
                    if words[i] == ";" {
                        i += 1;
                        break;
                    }
                    if i + 1 < words.len() && words[i + 1] == ":" {
                        break;
                    }
                    if words[i] == "|" {
                        alts.push(vec![]);
                    } else if words[i] != "%empty" {
                        alts.last_mut().unwrap().push(words[i].clone());
                    }
                    i += 1;
                }
                raw.push((name, alts));
            } else {
                crate::infra::machinery_exit(&format!("grammar.y: unexpected word {:?}", words[i]));
            }
        }
        let nts: Vec<String> = raw.iter().map(|(n, _)| n.clone()).collect();
        let mut alts = vec![];
        for (_, ra) in &raw {
            let mut a = vec![];
            for alt in ra {
                let mut syms = vec![];
                for w in alt {
                    if let Some(n) = nts.iter().position(|n| n == w) {
                        syms.push(Sym::N(n));
                    } else if let Some(k) = K::from_grammar_name(w) {
                        syms.push(Sym::T(k));
                    } else {
                        crate::infra::machinery_exit(&format!("grammar.y: unknown symbol {w}"));
                    }
                }
                a.push(syms);
            }
            alts.push(a);
        }
        if nts.is_empty() {
            crate::infra::machinery_exit("grammar.y: no rules");
        }
        Grammar { nts, alts, start: 0 }
    }

    // Minimal token length of each nonterminal (usize::MAX = derives nothing).
    pub fn min_lengths(&self) -> Vec<usize> {
        let mut m = vec![usize::MAX; self.nts.len()];
        loop {
            let mut changed = false;
            for nt in 0..self.nts.len() {
                for alt in &self.alts[nt] {
                    let mut t = 0usize;
                    for s in alt {
                        t = t.saturating_add(match s {
                            Sym::T(_) => 1,
                            Sym::N(n) => m[*n],
                        });
                    }
                    if t < m[nt] {
                        m[nt] = t;
                        changed = true;
                    }
                }
            }
            if !changed {
                return m;
            }
        }
    }

    pub fn nt(&self, name: &str) -> usize {
        self.nts
            .iter()
            .position(|n| n == name)
            .unwrap_or_else(|| crate::infra::machinery_exit(&format!("grammar.y has no rule {name}")))
    }

    // The sub-grammar whose alternatives use only the given terminals and none of the given
    // nonterminals.
    pub fn restrict(&self, terminals: &[K], drop_nts: &[&str]) -> Grammar {
        let dropped: Vec<usize> = drop_nts.iter().filter_map(|n| self.nts.iter().position(|m| m == n)).collect();
        let mut g = self.clone();
        for a in &mut g.alts {
            a.retain(|alt| {
                alt.iter().all(|s| match s {
                    Sym::T(k) => terminals.contains(k),
                    Sym::N(n) => !dropped.contains(n),
                })
            });
        }
        g
    }
}

// Derivation trees by token length.
pub struct Enumerator {
    pub g: Grammar,
    minlen: Vec<usize>,
    memo_nt: HashMap<(usize, usize), u64>,
    memo_seq: HashMap<(usize, usize, usize, usize), u64>,
    in_progress: std::collections::HashSet<(usize, usize)>,
}

impl Enumerator {
    pub fn new(g: Grammar) -> Enumerator {
        let minlen = g.min_lengths();
        Enumerator { g, minlen, memo_nt: HashMap::new(), memo_seq: HashMap::new(), in_progress: Default::default() }
    }

    pub fn count(&mut self, nt: usize, len: usize) -> u64 {
        if let Some(c) = self.memo_nt.get(&(nt, len)) {
            return *c;
        }
        if !self.in_progress.insert((nt, len)) {
            crate::infra::machinery_exit("grammar.y: cyclic unit/empty productions");
        }
        let mut total = 0u64;
        for alt in 0..self.g.alts[nt].len() {
            total = total.checked_add(self.count_seq(nt, alt, 0, len)).expect("count overflow");
        }
        self.in_progress.remove(&(nt, len));
        self.memo_nt.insert((nt, len), total);
        total
    }

    fn count_seq(&mut self, nt: usize, alt: usize, k: usize, len: usize) -> u64 {
        let n = self.g.alts[nt][alt].len();
        if k == n {
            return u64::from(len == 0);
        }
        if let Some(c) = self.memo_seq.get(&(nt, alt, k, len)) {
            return *c;
        }
        let r = match self.g.alts[nt][alt][k] {
            Sym::T(_) => {
                if len >= 1 {
                    self.count_seq(nt, alt, k + 1, len - 1)
                } else {
                    0
                }
            }
            Sym::N(m) => {
                let mut t = 0u64;
                let tail = self.min_tail(nt, alt, k + 1);
                let mut l = self.minlen[m];
                while l != usize::MAX && l + tail <= len {
                    let c = self.count(m, l);
                    if c != 0 {
                        let rest = self.count_seq(nt, alt, k + 1, len - l);
                        t = t.checked_add(c.checked_mul(rest).expect("count overflow")).expect("count overflow");
                    }
                    l += 1;
                }
                t
            }
        };
        self.memo_seq.insert((nt, alt, k, len), r);
        r
    }

    fn min_tail(&self, nt: usize, alt: usize, k: usize) -> usize {
        let mut t = 0usize;
        for s in &self.g.alts[nt][alt][k..] {
            t = t.saturating_add(match s {
                Sym::T(_) => 1,
                Sym::N(m) => self.minlen[*m],
            });
        }
        t
    }

    pub fn unrank(&mut self, nt: usize, len: usize, mut r: u64) -> Tree {
        for alt in 0..self.g.alts[nt].len() {
            let c = self.count_seq(nt, alt, 0, len);
            if r < c {
                let mut kids = vec![];
                self.unrank_seq(nt, alt, 0, len, r, &mut kids);
                return Tree::Node { nt, alt, kids };
            }
            r -= c;
        }
        panic!("unrank out of range");
    }

    fn unrank_seq(&mut self, nt: usize, alt: usize, k: usize, len: usize, mut r: u64, kids: &mut Vec<Tree>) {
        let n = self.g.alts[nt][alt].len();
        if k == n {
            return;
        }
        match self.g.alts[nt][alt][k] {
            Sym::T(t) => {
                kids.push(Tree::Leaf(t));
                self.unrank_seq(nt, alt, k + 1, len - 1, r, kids);
            }
            Sym::N(m) => {
                let tail = self.min_tail(nt, alt, k + 1);
                for l in self.minlen[m]..=len.saturating_sub(tail) {
                    let c = self.count(m, l);
                    if c == 0 {
                        continue;
                    }
                    let rest = self.count_seq(nt, alt, k + 1, len - l);
                    if rest == 0 {
                        continue;
                    }
                    let block = c * rest;
                    if r < block {
                        kids.push(self.unrank(m, l, r / rest));
                        self.unrank_seq(nt, alt, k + 1, len - l, r % rest, kids);
                        return;
                    }
                    r -= block;
                }
                panic!("unrank_seq out of range");
            }
        }
    }
}

// All derivations of a concrete token sequence (capped at `cap` trees per span).
pub struct Recognizer<'g> {
    g: &'g Grammar,
    toks: Vec<K>,
    memo: HashMap<(usize, usize, usize), Vec<Tree>>,
    busy: std::collections::HashSet<(usize, usize, usize)>,
    cap: usize,
}

impl<'g> Recognizer<'g> {
    pub fn new(g: &'g Grammar, toks: &[K]) -> Recognizer<'g> {
        // Both terminator flavours are the grammar's TERMINATOR.
        let toks = toks.iter().map(|k| if *k == K::LineBreak { K::Semicolon } else { *k }).collect();
        Recognizer { g, toks, memo: HashMap::new(), busy: Default::default(), cap: 2 }
    }

    pub fn parses(&mut self) -> Vec<Tree> {
        let n = self.toks.len();
        self.derive(self.g.start, 0, n)
    }

    fn derive(&mut self, nt: usize, i: usize, j: usize) -> Vec<Tree> {
        if let Some(v) = self.memo.get(&(nt, i, j)) {
            return v.clone();
        }
        if !self.busy.insert((nt, i, j)) {
            return vec![];
        }
        let mut out = vec![];
        for alt in 0..self.g.alts[nt].len() {
            let seqs = self.derive_seq(nt, alt, 0, i, j);
            for kids in seqs {
                if out.len() < self.cap {
                    out.push(Tree::Node { nt, alt, kids });
                }
            }
        }
        self.busy.remove(&(nt, i, j));
        self.memo.insert((nt, i, j), out.clone());
        out
    }

    fn derive_seq(&mut self, nt: usize, alt: usize, k: usize, i: usize, j: usize) -> Vec<Vec<Tree>> {
        let n = self.g.alts[nt][alt].len();
        if k == n {
            return if i == j { vec![vec![]] } else { vec![] };
        }
        // Minimal pruning: every remaining terminal needs one token.
        match self.g.alts[nt][alt][k] {
            Sym::T(t) => {
                if i < j && self.toks[i] == t {
                    let mut r = self.derive_seq(nt, alt, k + 1, i + 1, j);
                    for v in &mut r {
                        v.insert(0, Tree::Leaf(t));
                    }
                    r
                } else {
                    vec![]
                }
            }
            Sym::N(m) => {
                let mut out = vec![];
                for mid in i..=j {
                    let rest = self.derive_seq(nt, alt, k + 1, mid, j);
                    if rest.is_empty() {
                        continue;
                    }
                    let heads = self.derive(m, i, mid);
                    for h in &heads {
                        for r in &rest {
                            if out.len() < self.cap {
                                let mut v = vec![h.clone()];
                                v.extend(r.iter().cloned());
                                out.push(v);
                            }
                        }
                    }
                }
                out
            }
        }
    }
}
