// E5 — type-directed enumeration of fully annotated, well-typed surface programs.
//
// gen(ctx, goal, n) = every program of type `goal` in context `ctx` with exactly n nodes (annotations
// not counted), built from: variables and literals; arithmetic, comparison, negation, conditional;
// lambda for function goals; application of anything of a function type (so also beta-redexes and
// higher-order arguments); definition groups of one or two members (plain, recursive and mutually
// recursive functions, type aliases incl. forward references); function types and type-level
// conditionals for the goal `type`; the polymorphic identity and its instantiation. Every program
// carries its expected type. The enumeration is memoised on (context, goal, size).
use crate::model::{
    mterm::Op,
    surface::{S, bx},
};
use std::{collections::HashMap, rc::Rc};

#[derive(Clone, PartialEq, Eq, Hash, Debug)]
pub enum Ty {
    Int,
    Bool,
    Type,
    Fun(Rc<Ty>, Rc<Ty>),
    // (a : type) -> a -> a
    Poly,
    // a name that is in scope but must not be used (keeps binder names unique)
    Reserved,
}

impl Ty {
    pub fn fun(a: Ty, b: Ty) -> Ty {
        Ty::Fun(Rc::new(a), Rc::new(b))
    }
    // The canonical type expression.
    pub fn expr(&self) -> S {
        match self {
            Ty::Int => S::Int,
            Ty::Bool => S::Bool,
            Ty::Type => S::Type,
            Ty::Fun(a, b) => S::Pi { name: None, implicit: false, dom: bx(a.expr()), cod: bx(b.expr()) },
            Ty::Reserved => S::Type,
            Ty::Poly => S::Pi {
                name: Some("a".to_owned()),
                implicit: false,
                dom: bx(S::Type),
                cod: bx(S::Pi { name: None, implicit: false, dom: bx(S::Var("a".to_owned())), cod: bx(S::Var("a".to_owned())) }),
            },
        }
    }
    pub fn show(&self) -> String {
        crate::model::surface::print(&self.expr())
    }
}

#[derive(Clone, PartialEq, Eq, Hash, Debug)]
pub struct Binding {
    pub ty: Ty,
    // for a let-bound variable of type `type`: the type it stands for
    pub alias: Option<Ty>,
}

pub type Ctx = Vec<Binding>;

#[derive(Clone)]
pub struct Config {
    pub int_lits: Vec<&'static str>,
    pub arith: Vec<Op>,
    pub cmp: Vec<Op>,
    pub arg_types: Vec<Ty>,
    pub let_types: Vec<Ty>,
    pub groups_of_two: bool,
    pub computed_annotations: bool,
    pub max_ctx: usize,
}

impl Config {
    pub fn standard() -> Config {
        Config {
            int_lits: vec!["0", "1", "2"],
            arith: vec![Op::Add, Op::Sub, Op::Mul, Op::Div],
            cmp: vec![Op::Lt, Op::Le, Op::Eq, Op::Gt, Op::Ge],
            arg_types: vec![Ty::Int, Ty::Bool, Ty::fun(Ty::Int, Ty::Int), Ty::Type],
            let_types: vec![Ty::Int, Ty::Bool, Ty::fun(Ty::Int, Ty::Int), Ty::Type, Ty::Poly],
            groups_of_two: true,
            computed_annotations: true,
            max_ctx: 4,
        }
    }
}

pub struct Gen {
    pub cfg: Config,
    memo: HashMap<(Ctx, Ty, usize), Rc<Vec<Rc<S>>>>,
}

fn var(i: usize) -> String {
    format!("v{i}")
}

impl Gen {
    pub fn new(cfg: Config) -> Gen {
        Gen { cfg, memo: HashMap::new() }
    }

    // Ways to write the type `t` as an annotation in `ctx`.
    fn annotations(&self, ctx: &Ctx, t: &Ty) -> Vec<S> {
        let mut v = vec![t.expr()];
        for (i, b) in ctx.iter().enumerate() {
            if b.alias.as_ref() == Some(t) {
                v.push(S::Var(var(i)));
            }
        }
        v
    }

    pub fn terms(&mut self, ctx: &Ctx, goal: &Ty, n: usize) -> Rc<Vec<Rc<S>>> {
        if n == 0 {
            return Rc::new(vec![]);
        }
        let key = (ctx.clone(), goal.clone(), n);
        if let Some(v) = self.memo.get(&key) {
            return v.clone();
        }
        let mut out: Vec<Rc<S>> = vec![];
        if n == 1 {
            for (i, b) in ctx.iter().enumerate() {
                if b.ty == *goal {
                    out.push(bx(S::Var(var(i))));
                }
            }
            match goal {
                Ty::Int => {
                    for l in &self.cfg.int_lits {
                        out.push(bx(S::Lit((*l).to_owned())));
                    }
                }
                Ty::Bool => {
                    out.push(bx(S::True));
                    out.push(bx(S::False));
                }
                Ty::Type => {
                    out.push(bx(S::Int));
                    out.push(bx(S::Bool));
                    out.push(bx(S::Type));
                }
                _ => {}
            }
        } else {
            // arithmetic / comparison / negation
            if *goal == Ty::Int || *goal == Ty::Bool {
                let ops = if *goal == Ty::Int { self.cfg.arith.clone() } else { self.cfg.cmp.clone() };
                for i in 1..n - 1 {
                    let (xs, ys) = (self.terms(ctx, &Ty::Int, i), self.terms(ctx, &Ty::Int, n - 1 - i));
                    for op in &ops {
                        for x in xs.iter() {
                            for y in ys.iter() {
                                out.push(bx(S::Bin(*op, x.clone(), y.clone())));
                            }
                        }
                    }
                }
                if *goal == Ty::Int {
                    for x in self.terms(ctx, &Ty::Int, n - 1).iter() {
                        out.push(bx(S::Neg(x.clone())));
                    }
                }
            }
            // conditional
            if n >= 4 {
                for i in 1..n - 2 {
                    for j in 1..n - 1 - i {
                        let k = n - 1 - i - j;
                        let (cs, ts, es) = (self.terms(ctx, &Ty::Bool, i), self.terms(ctx, goal, j), self.terms(ctx, goal, k));
                        for c in cs.iter() {
                            for t in ts.iter() {
                                for e in es.iter() {
                                    out.push(bx(S::If(c.clone(), t.clone(), e.clone())));
                                }
                            }
                        }
                    }
                }
            }
            // application
            for a_ty in self.cfg.arg_types.clone() {
                let f_ty = Ty::fun(a_ty.clone(), goal.clone());
                if depth_of(&f_ty) > 3 {
                    continue;
                }
                for i in 1..n - 1 {
                    let (fs, xs) = (self.terms(ctx, &f_ty, i), self.terms(ctx, &a_ty, n - 1 - i));
                    for f in fs.iter() {
                        for x in xs.iter() {
                            out.push(bx(S::App(f.clone(), x.clone())));
                        }
                    }
                }
            }
            // instantiation of the polymorphic identity
            if let Ty::Fun(a, b) = goal
                && a == b
                && matches!(**a, Ty::Int | Ty::Bool)
                && n >= 2
            {
                for p in self.terms(ctx, &Ty::Poly, n - 2).iter() {
                    for ann in self.annotations(ctx, a) {
                        out.push(bx(S::App(p.clone(), bx(ann))));
                    }
                }
            }
            // lambda
            if let Ty::Fun(a, b) = goal
                && ctx.len() < self.cfg.max_ctx
            {
                let mut c2 = ctx.clone();
                c2.push(Binding { ty: (**a).clone(), alias: None });
                let name = var(ctx.len());
                let anns = self.annotation_variants(ctx, a);
                for body in self.terms(&c2, b, n - 1).iter() {
                    for ann in &anns {
                        out.push(bx(S::Lam { name: name.clone(), implicit: false, ann: Some(bx(ann.clone())), body: body.clone() }));
                    }
                }
            }
            if *goal == Ty::Poly && n == 3 {
                // binder names differ from those of the canonical type expression `(a : type) -> a -> a`,
                // so that comparing the two exercises alpha-equivalence
                // ... and the variant whose names coincide with the type expression's (so that a renaming
                // rewrite makes them differ)
                out.push(bx(S::Lam {
                    name: "a".to_owned(),
                    implicit: false,
                    ann: Some(bx(S::Type)),
                    body: bx(S::Lam { name: "y".to_owned(), implicit: false, ann: Some(bx(S::Var("a".to_owned()))), body: bx(S::Var("y".to_owned())) }),
                }));
                out.push(bx(S::Lam {
                    name: "b".to_owned(),
                    implicit: false,
                    ann: Some(bx(S::Type)),
                    body: bx(S::Lam { name: "x".to_owned(), implicit: false, ann: Some(bx(S::Var("b".to_owned()))), body: bx(S::Var("x".to_owned())) }),
                }));
            }
            // function types (goal `type`)
            if *goal == Ty::Type {
                for i in 1..n - 1 {
                    let (ds, cs) = (self.terms(ctx, &Ty::Type, i), self.terms(ctx, &Ty::Type, n - 1 - i));
                    for d in ds.iter() {
                        for c in cs.iter() {
                            out.push(bx(S::Pi { name: None, implicit: false, dom: d.clone(), cod: c.clone() }));
                        }
                    }
                }
                if ctx.len() < self.cfg.max_ctx && n >= 3 {
                    // dependent: (x : type) -> B with B possibly mentioning x
                    let mut c2 = ctx.clone();
                    c2.push(Binding { ty: Ty::Type, alias: None });
                    for c in self.terms(&c2, &Ty::Type, n - 2).iter() {
                        out.push(bx(S::Pi { name: Some(var(ctx.len())), implicit: false, dom: bx(S::Type), cod: c.clone() }));
                    }
                }
            }
            // definition groups
            if ctx.len() < self.cfg.max_ctx {
                for a_ty in self.cfg.let_types.clone() {
                    self.let_one(ctx, goal, n, &a_ty, &mut out);
                }
                if self.cfg.groups_of_two && ctx.len() + 1 < self.cfg.max_ctx && n >= 4 {
                    let tys = self.cfg.let_types.clone();
                    for a_ty in &tys {
                        for b_ty in &tys {
                            self.let_two(ctx, goal, n, a_ty, b_ty, &mut out);
                        }
                    }
                }
            }
        }
        let r = Rc::new(out);
        self.memo.insert(key, r.clone());
        r
    }

    fn annotation_variants(&self, ctx: &Ctx, t: &Ty) -> Vec<S> {
        let mut v = self.annotations(ctx, t);
        if self.cfg.computed_annotations && matches!(t, Ty::Int | Ty::Bool) && ctx.is_empty() {
            // types computed by a type-level conditional / function
            v.push(S::If(bx(S::True), bx(t.expr()), bx(S::Type)));
            v.push(S::App(
                bx(S::Lam { name: "t".to_owned(), implicit: false, ann: Some(bx(S::Type)), body: bx(S::Var("t".to_owned())) }),
                bx(t.expr()),
            ));
        }
        v
    }

    // x : A = e; body      (e may mention x when A is a function type)
    fn let_one(&mut self, ctx: &Ctx, goal: &Ty, n: usize, a_ty: &Ty, out: &mut Vec<Rc<S>>) {
        let name = var(ctx.len());
        let recursive = matches!(a_ty, Ty::Fun(..));
        for i in 1..n - 1 {
            let j = n - 1 - i;
            let mut def_ctx = ctx.clone();
            def_ctx.push(Binding { ty: if recursive { a_ty.clone() } else { Ty::Reserved }, alias: None });
            let defs = self.terms(&def_ctx, a_ty, i);
            for d in defs.iter() {
                // a definition of type `type` makes the variable an alias when it is a plain type
                let alias = if *a_ty == Ty::Type { alias_of(d, ctx) } else { None };
                let mut c2 = ctx.clone();
                c2.push(Binding { ty: a_ty.clone(), alias });
                let anns = self.annotations(ctx, a_ty);
                for body in self.terms(&c2, goal, j).iter() {
                    // a definition that mentions its own variable must be a function (value)
                    if recursive && mentions(d, &name) && !matches!(**d, S::Lam { .. }) {
                        continue;
                    }
                    for ann in &anns {
                        out.push(bx(S::Let { name: name.clone(), ann: Some(bx(ann.clone())), def: d.clone(), body: own_group(body) }));
                    }
                }
            }
        }
    }

    // x : A = e1; y : B = e2; body   with both names in scope of both definitions (mutual recursion,
    // forward references, type aliases in both directions)
    fn let_two(&mut self, ctx: &Ctx, goal: &Ty, n: usize, a_ty: &Ty, b_ty: &Ty, out: &mut Vec<Rc<S>>) {
        let (x, y) = (var(ctx.len()), var(ctx.len() + 1));
        let mut gctx = ctx.clone();
        gctx.push(Binding { ty: a_ty.clone(), alias: None });
        gctx.push(Binding { ty: b_ty.clone(), alias: None });
        let with = |a1: Option<Ty>, a2: Option<Ty>| {
            let mut c = ctx.clone();
            c.push(Binding { ty: a_ty.clone(), alias: a1 });
            c.push(Binding { ty: b_ty.clone(), alias: a2 });
            c
        };
        for i in 1..n - 2 {
            for j in 1..n - 1 - i {
                let k = n - 1 - i - j;
                // (first, second, context of the body)
                let mut groups: Vec<(Rc<S>, Rc<S>, Ctx)> = vec![];
                // forward: the second definition may be an alias the first one uses
                for e2 in self.terms(&gctx, b_ty, j).iter() {
                    let alias2 = if *b_ty == Ty::Type { alias_of(e2, &gctx) } else { None };
                    let c = with(None, alias2.clone());
                    for e1 in self.terms(&c, a_ty, i).iter() {
                        let alias1 = if *a_ty == Ty::Type { alias_of(e1, &c) } else { None };
                        if alias1.is_some() && !mentions(e1, &y) {
                            continue; // produced by the backward case below
                        }
                        groups.push((e1.clone(), e2.clone(), with(alias1, alias2.clone())));
                    }
                }
                // backward: the first definition is an alias the second one (and the body) may use
                if *a_ty == Ty::Type {
                    for e1 in self.terms(&gctx, a_ty, i).iter() {
                        let Some(alias1) = alias_of(e1, &gctx) else { continue };
                        let c = with(Some(alias1.clone()), None);
                        for e2 in self.terms(&c, b_ty, j).iter() {
                            let alias2 = if *b_ty == Ty::Type { alias_of(e2, &c) } else { None };
                            groups.push((e1.clone(), e2.clone(), with(Some(alias1.clone()), alias2)));
                        }
                    }
                }
                for (e1, e2, c) in groups {
                    // keep the group interesting and evaluable: a cross reference or a type alias, and a
                    // non-function definition may only mention group members when it is itself a type
                    let cross = mentions(&e1, &y) || mentions(&e2, &x) || *a_ty == Ty::Type || *b_ty == Ty::Type;
                    if !cross {
                        continue;
                    }
                    if (mentions(&e1, &x) || mentions(&e1, &y)) && !matches!(*e1, S::Lam { .. }) && !matches!(a_ty, Ty::Type) {
                        continue;
                    }
                    // type-level definitions must not be cyclic (a definition that needs its own value)
                    if mentions(&e1, &x) && !matches!(*e1, S::Lam { .. }) || mentions(&e2, &y) && !matches!(*e2, S::Lam { .. }) {
                        continue;
                    }
                    if mentions(&e1, &y) && mentions(&e2, &x) && !(matches!(*e1, S::Lam { .. }) && matches!(*e2, S::Lam { .. })) {
                        continue;
                    }
                    if (mentions(&e2, &x) || mentions(&e2, &y)) && !matches!(*e2, S::Lam { .. }) && !matches!(b_ty, Ty::Type) {
                        continue;
                    }
                    let bodies = self.terms(&c, goal, k);
                    if bodies.is_empty() {
                        continue;
                    }
                    let ann1s = self.annotations(&c, a_ty);
                    let ann2 = b_ty.expr();
                    for body in bodies.iter() {
                        for ann1 in &ann1s {
                            out.push(bx(S::Let {
                                name: x.clone(),
                                ann: Some(bx(ann1.clone())),
                                def: e1.clone(),
                                body: bx(S::Let { name: y.clone(), ann: Some(bx(ann2.clone())), def: e2.clone(), body: own_group(body) }),
                            }));
                        }
                    }
                }
            }
        }
    }
}

// A let in body position would be merged into the enclosing group (whose definitions were generated
// without knowing its names); parenthesised it stays a group of its own.
fn own_group(body: &Rc<S>) -> Rc<S> {
    if matches!(**body, S::Let { .. }) { bx(S::Paren(body.clone())) } else { body.clone() }
}

fn depth_of(t: &Ty) -> usize {
    match t {
        Ty::Fun(a, b) => 1 + depth_of(a).max(depth_of(b)),
        Ty::Poly => 2,
        _ => 0,
    }
}

// If `s` is a plain closed type expression, the type it denotes.
fn alias_of(s: &S, ctx: &Ctx) -> Option<Ty> {
    match s {
        S::Int => Some(Ty::Int),
        S::Bool => Some(Ty::Bool),
        S::Pi { name: None, dom, cod, .. } => Some(Ty::fun(alias_of(dom, ctx)?, alias_of(cod, ctx)?)),
        S::Var(v) => {
            let i: usize = v.strip_prefix('v')?.parse().ok()?;
            ctx.get(i)?.alias.clone()
        }
        _ => None,
    }
}

pub fn mentions(s: &S, name: &str) -> bool {
    match s {
        S::Var(v) => v == name,
        S::Type | S::Int | S::Bool | S::True | S::False | S::Lit(_) => false,
        S::Lam { ann, body, .. } => ann.as_ref().is_some_and(|a| mentions(a, name)) || mentions(body, name),
        S::Pi { dom, cod, .. } => mentions(dom, name) || mentions(cod, name),
        S::App(a, b) | S::Bin(_, a, b) => mentions(a, name) || mentions(b, name),
        S::Let { ann, def, body, .. } => ann.as_ref().is_some_and(|a| mentions(a, name)) || mentions(def, name) || mentions(body, name),
        S::Neg(a) | S::Paren(a) => mentions(a, name),
        S::If(a, b, c) => mentions(a, name) || mentions(b, name) || mentions(c, name),
    }
}

pub fn goals() -> Vec<Ty> {
    vec![
        Ty::Int,
        Ty::Bool,
        Ty::Type,
        Ty::fun(Ty::Int, Ty::Int),
        Ty::fun(Ty::Bool, Ty::Int),
        Ty::fun(Ty::fun(Ty::Int, Ty::Int), Ty::Int),
        Ty::fun(Ty::Bool, Ty::Type),
        Ty::Poly,
    ]
}

// The whole space up to a size: (goal, program) pairs in a fixed order.
pub fn programs(cfg: Config, max_size: usize) -> Vec<(Ty, Rc<S>)> {
    let mut g = Gen::new(cfg);
    let mut out = vec![];
    for n in 1..=max_size {
        for goal in goals() {
            for p in g.terms(&vec![], &goal, n).iter() {
                out.push((goal.clone(), p.clone()));
            }
        }
    }
    out
}
