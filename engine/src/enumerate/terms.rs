// All de Bruijn mirror terms with exactly n nodes over a configurable set of formers (E6), with
// memoised counts and unranking.
use crate::model::mterm::{M, Op, R, rc};
use num_bigint::BigInt;
use std::{collections::HashMap, rc::Rc};

#[derive(Clone, Debug)]
pub enum Former {
    Neg,
    Lam(bool),
    Pi(bool),
    App,
    Bin(Op),
    If,
    Let(usize),
}

impl Former {
    pub fn arity(&self) -> usize {
        match self {
            Former::Neg => 1,
            Former::Lam(_) | Former::Pi(_) | Former::App | Former::Bin(_) => 2,
            Former::If => 3,
            Former::Let(k) => 2 * k + 1,
        }
    }
    fn build(&self, kids: Vec<M>) -> M {
        let mut it = kids.into_iter().map(rc);
        let x: Rc<str> = Rc::from("x");
        match self {
            Former::Neg => M::Neg(it.next().unwrap()),
            Former::Lam(i) => M::Lam(x, *i, it.next().unwrap(), it.next().unwrap()),
            Former::Pi(i) => M::Pi(x, *i, it.next().unwrap(), it.next().unwrap()),
            Former::App => M::App(it.next().unwrap(), it.next().unwrap()),
            Former::Bin(o) => M::Bin(*o, it.next().unwrap(), it.next().unwrap()),
            Former::If => M::If(it.next().unwrap(), it.next().unwrap(), it.next().unwrap()),
            Former::Let(k) => {
                let mut ds = vec![];
                for j in 0..*k {
                    let a = it.next().unwrap();
                    let d = it.next().unwrap();
                    ds.push((Rc::from(format!("d{j}").as_str()), a, d));
                }
                M::Let(ds, it.next().unwrap())
            }
        }
    }
}

pub struct TermSpace {
    pub atoms: Vec<M>,
    pub formers: Vec<Former>,
    memo: HashMap<usize, u64>,
    memo_seq: HashMap<(usize, usize), u64>,
}

pub fn all_atoms(max_index: usize) -> Vec<M> {
    let mut v = vec![M::Type, M::Int, M::Bool, M::True, M::False, M::Lit(BigInt::from(0)), M::Lit(BigInt::from(7))];
    for i in 0..max_index {
        v.push(M::Var(Rc::from(format!("v{i}").as_str()), i));
    }
    v
}

pub fn all_formers(max_let: usize) -> Vec<Former> {
    let mut f = vec![Former::Neg, Former::Lam(false), Former::Lam(true), Former::Pi(false), Former::Pi(true), Former::App];
    for o in Op::ALL {
        f.push(Former::Bin(o));
    }
    f.push(Former::If);
    for k in 1..=max_let {
        f.push(Former::Let(k));
    }
    f
}

impl TermSpace {
    pub fn new(atoms: Vec<M>, formers: Vec<Former>) -> TermSpace {
        TermSpace { atoms, formers, memo: HashMap::new(), memo_seq: HashMap::new() }
    }

    pub fn count(&mut self, n: usize) -> u64 {
        if n == 0 {
            return 0;
        }
        if let Some(c) = self.memo.get(&n) {
            return *c;
        }
        let mut t = if n == 1 { self.atoms.len() as u64 } else { 0 };
        for i in 0..self.formers.len() {
            let a = self.formers[i].arity();
            if n > a {
                t += self.count_seq(a, n - 1);
            }
        }
        self.memo.insert(n, t);
        t
    }

    // number of ways to fill `arity` children with `total` nodes altogether
    fn count_seq(&mut self, arity: usize, total: usize) -> u64 {
        if arity == 0 {
            return u64::from(total == 0);
        }
        if total < arity {
            return 0;
        }
        if let Some(c) = self.memo_seq.get(&(arity, total)) {
            return *c;
        }
        let mut t = 0;
        for first in 1..=total - (arity - 1) {
            t += self.count(first) * self.count_seq(arity - 1, total - first);
        }
        self.memo_seq.insert((arity, total), t);
        t
    }

    pub fn unrank(&mut self, n: usize, mut r: u64) -> M {
        if n == 1 {
            if (r as usize) < self.atoms.len() {
                return self.atoms[r as usize].clone();
            }
            r -= self.atoms.len() as u64;
        }
        for i in 0..self.formers.len() {
            let a = self.formers[i].arity();
            if n > a {
                let c = self.count_seq(a, n - 1);
                if r < c {
                    let mut kids = vec![];
                    self.unrank_seq(a, n - 1, r, &mut kids);
                    return self.formers[i].clone().build(kids);
                }
                r -= c;
            }
        }
        panic!("term unrank out of range");
    }

    fn unrank_seq(&mut self, arity: usize, total: usize, mut r: u64, out: &mut Vec<M>) {
        if arity == 0 {
            return;
        }
        for first in 1..=total - (arity - 1) {
            let c1 = self.count(first);
            let c2 = self.count_seq(arity - 1, total - first);
            if r < c1 * c2 {
                out.push(self.unrank(first, r / c2));
                self.unrank_seq(arity - 1, total - first, r % c2, out);
                return;
            }
            r -= c1 * c2;
        }
        panic!("term unrank_seq out of range");
    }

    // (size, index within size) for a global index over sizes 1..=max
    pub fn total_upto(&mut self, max: usize) -> u64 {
        (1..=max).map(|n| self.count(n)).sum()
    }
    pub fn unrank_global(&mut self, max: usize, mut idx: u64) -> M {
        for n in 1..=max {
            let c = self.count(n);
            if idx < c {
                return self.unrank(n, idx);
            }
            idx -= c;
        }
        panic!("global term index out of range");
    }
}
