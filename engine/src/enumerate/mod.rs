// Exhaustive, deterministic enumerators with count / unrank.

// All sequences of at most `max` symbols over an alphabet of `n` symbols, shortest first.
#[derive(Clone)]
pub struct Seqs {
    pub n: u64,
    pub max: usize,
    offsets: Vec<u64>, // offsets[l] = number of sequences shorter than l
}

impl Seqs {
    pub fn new(n: usize, max: usize) -> Seqs {
        Seqs::with_min(n, 0, max)
    }
    pub fn with_min(n: usize, min: usize, max: usize) -> Seqs {
        let mut offsets = vec![0u64; max + 2];
        let mut total = 0u64;
        for l in 0..=max {
            offsets[l] = total;
            if l >= min {
                total = total.checked_add((n as u64).checked_pow(l as u32).expect("overflow")).expect("overflow");
            }
        }
        offsets[max + 1] = total;
        Seqs { n: n as u64, max, offsets }
    }
    pub fn count(&self) -> u64 {
        self.offsets[self.max + 1]
    }
    pub fn unrank(&self, mut idx: u64, out: &mut Vec<usize>) {
        out.clear();
        let mut len = 0;
        for l in 0..=self.max {
            if idx >= self.offsets[l] && idx < self.offsets[l + 1] {
                len = l;
                break;
            }
        }
        idx -= self.offsets[len];
        for _ in 0..len {
            out.push((idx % self.n) as usize);
            idx /= self.n;
        }
        out.reverse();
    }
}
