// Exhaustive, deterministic enumerators with count / unrank.

// All sequences of at most `max` symbols over an alphabet of `n` symbols, shortest first.
#[derive(Clone)]
pub struct Seqs {
    pub n: u64,
    pub max: usize,
    offsets: Vec<u64>, // offsets[l] = number of sequences shorter than l
}

impl Seqs {
    pub fn new(n: usize, max: usize) -> Seqs {
        Seqs::with_min(n, 0, max)
    }
    pub fn with_min(n: usize, min: usize, max: usize) -> Seqs {
        let mut offsets = vec![0u64; max + 2];
        let mut total = 0u64;
        for l in 0..=max {
            offsets[l] = total;
            if l >= min {
                total = total.checked_add((n as u64).checked_pow(l as u32).expect("overflow")).expect("overflow");
            }
        }
        offsets[max + 1] = total;
        Seqs { n: n as u64, max, offsets }
    }
    pub fn count(&self) -> u64 {
        self.offsets[self.max + 1]
    }
    pub fn unrank(&self, mut idx: u64, out: &mut Vec<usize>) {
        out.clear();
        let mut len = 0;
        for l in 0..=self.max {
            if idx >= self.offsets[l] && idx < self.offsets[l + 1] {
                len = l;
                break;
            }
        }
        idx -= self.offsets[len];
        for _ in 0..len {
            out.push((idx % self.n) as usize);
            idx /= self.n;
        }
        out.reverse();
    }
}

use crate::model::{
    grammar::{Enumerator, Grammar, Tree},
    tok::{K, Tok},
};

// All derivation trees of a grammar with token length in min..=max, shortest first.
pub struct Sentences {
    pub en: Enumerator,
    pub start: usize,
    pub blocks: Vec<(usize, u64, u64)>, // (len, count, offset)
    pub total: u64,
}

impl Sentences {
    pub fn new(g: Grammar, min: usize, max: usize) -> Sentences {
        let start = g.start;
        let mut en = Enumerator::new(g);
        let mut blocks = vec![];
        let mut total = 0;
        for len in min..=max {
            let c = en.count(start, len);
            blocks.push((len, c, total));
            total += c;
        }
        Sentences { en, start, blocks, total }
    }
    pub fn tree(&mut self, idx: u64) -> Tree {
        for (len, c, off) in self.blocks.clone() {
            if idx >= off && idx < off + c {
                return self.en.unrank(self.start, len, idx - off);
            }
        }
        panic!("sentence index out of range");
    }
}

// Name the identifier leaves of a derivation tree: binders get fresh names b0, b1, ...; uses get the
// name `u` (to be supplied to `parse` as a context variable), so the sentence is well scoped.
pub fn name_simple(g: &Grammar, t: &Tree) -> Vec<Tok> {
    fn go(g: &Grammar, t: &Tree, in_variable: bool, n: &mut usize, out: &mut Vec<Tok>) {
        match t {
            Tree::Leaf(K::Identifier) => {
                if in_variable {
                    out.push(Tok::ident("u"));
                } else {
                    out.push(Tok::ident(&format!("b{n}")));
                    *n += 1;
                }
            }
            Tree::Leaf(k) => out.push(Tok::new(*k)),
            Tree::Node { nt, kids, .. } => {
                let v = g.nts[*nt] == "variable";
                for k in kids {
                    go(g, k, v, n, out);
                }
            }
        }
    }
    let mut out = vec![];
    let mut n = 0;
    go(g, t, false, &mut n, &mut out);
    out
}
pub mod terms;
pub mod typed;
