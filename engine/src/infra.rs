// Driver / worker infrastructure: sharded exhaustive sweeps in isolated worker processes, abnormal
// endings (stack overflow, abort, timeout) attributed to the case in flight, counters that survive a
// crash, evidence and replay artefacts.
use serde_json::{Value, json};
use std::{
    collections::BTreeMap,
    io::{BufRead, BufReader, Write},
    panic::{AssertUnwindSafe, catch_unwind},
    process::{Command, Stdio},
    sync::{
        Mutex, OnceLock,
        atomic::{AtomicU64, AtomicUsize, Ordering},
    },
    time::{Duration, Instant},
};

// Root of the verification directory: /verif, or the directory `./check` was started from (a snapshot
// copy works on its own build, evidence and replay directories).
pub fn verif_dir() -> String {
    std::env::var("VERIF_DIR").unwrap_or_else(|_| "/verif".to_owned())
}
// The repository under test: /repo, or a scratch worktree of it named by VERIF_REPO (used only by
// tools/seed_regress.sh to evaluate seeded defects without touching /repo; registered commands never set it).
pub fn repo_dir() -> String {
    std::env::var("VERIF_REPO").unwrap_or_else(|_| "/repo".to_owned())
}

#[derive(Clone, Copy, PartialEq, Eq, Debug)]
pub enum Tier {
    Quick,
    Thorough,
}
impl Tier {
    pub fn name(self) -> &'static str {
        match self {
            Tier::Quick => "quick",
            Tier::Thorough => "thorough",
        }
    }
    pub fn parse(s: &str) -> Tier {
        match s {
            "quick" => Tier::Quick,
            "thorough" => Tier::Thorough,
            _ => machinery_exit(&format!("unknown tier {s}")),
        }
    }
    pub fn pick<T>(self, q: T, t: T) -> T {
        match self {
            Tier::Quick => q,
            Tier::Thorough => t,
        }
    }
}

pub fn machinery_exit(msg: &str) -> ! {
    eprintln!("MACHINERY-ERROR: {msg}");
    std::process::exit(2);
}

// ------------------------------------------------------------------------------------------------
// Counters: a static array so that a signal handler can dump them.
// ------------------------------------------------------------------------------------------------

pub const MAX_COUNTERS: usize = 768;
static COUNTERS: [AtomicU64; MAX_COUNTERS] = [const { AtomicU64::new(0) }; MAX_COUNTERS];
static NAMES: Mutex<Vec<String>> = Mutex::new(Vec::new());
static CUR_SWEEP: AtomicUsize = AtomicUsize::new(usize::MAX);
static CUR_CASE: AtomicU64 = AtomicU64::new(u64::MAX);
static CASE_SERIAL: AtomicU64 = AtomicU64::new(0);
static CASE_TIMEOUT_MS: AtomicU64 = AtomicU64::new(10_000);
static IS_WORKER: AtomicUsize = AtomicUsize::new(0);

pub fn register(name: &str) -> usize {
    let mut names = NAMES.lock().unwrap();
    if let Some(i) = names.iter().position(|n| n == name) {
        return i;
    }
    let i = names.len();
    if i >= MAX_COUNTERS {
        machinery_exit("too many counters");
    }
    names.push(name.to_owned());
    if IS_WORKER.load(Ordering::Relaxed) == 1 {
        println!("N {i} {name}");
    }
    i
}

pub fn bump(i: usize, n: u64) {
    COUNTERS[i].fetch_add(n, Ordering::Relaxed);
}

pub fn bump_named(name: &str, n: u64) {
    bump(register(name), n);
}

pub fn max_named(name: &str, n: u64) {
    COUNTERS[register(name)].fetch_max(n, Ordering::Relaxed);
}

#[macro_export]
macro_rules! count {
    ($name:expr) => {{
        static IDX: std::sync::OnceLock<usize> = std::sync::OnceLock::new();
        $crate::infra::bump(*IDX.get_or_init(|| $crate::infra::register($name)), 1);
    }};
    ($name:expr, $n:expr) => {{
        static IDX: std::sync::OnceLock<usize> = std::sync::OnceLock::new();
        $crate::infra::bump(*IDX.get_or_init(|| $crate::infra::register($name)), $n as u64);
    }};
}

// An order-independent digest of (case, outcome) pairs: the wrapping sum of a hash per pair.
pub fn digest(sweep: usize, idx: u64, outcome: u64) {
    static IDX: OnceLock<usize> = OnceLock::new();
    let i = *IDX.get_or_init(|| register("digest"));
    let mut h: u64 = 0xcbf2_9ce4_8422_2325;
    for v in [sweep as u64, idx, outcome] {
        for b in v.to_le_bytes() {
            h ^= u64::from(b);
            h = h.wrapping_mul(0x0000_0100_0000_01b3);
        }
    }
    COUNTERS[i].fetch_add(h, Ordering::Relaxed);
}

pub fn fnv(s: &[u8]) -> u64 {
    let mut h: u64 = 0xcbf2_9ce4_8422_2325;
    for b in s {
        h ^= u64::from(*b);
        h = h.wrapping_mul(0x0000_0100_0000_01b3);
    }
    h
}

// ------------------------------------------------------------------------------------------------
// Reports from inside a case.
// ------------------------------------------------------------------------------------------------

static VIOLATIONS_PRINTED: AtomicUsize = AtomicUsize::new(0);
static SAMPLES: Mutex<BTreeMap<String, Vec<Value>>> = Mutex::new(BTreeMap::new());
static KNOWN_SEEN: Mutex<Vec<String>> = Mutex::new(Vec::new());
static REPLAY_MODE: AtomicUsize = AtomicUsize::new(0);

pub fn current_case() -> (usize, u64) {
    (CUR_SWEEP.load(Ordering::Relaxed), CUR_CASE.load(Ordering::Relaxed))
}

// A violation of the property, found on the case in flight.
pub fn violation(sub: &str, input: &str, expected: &str, actual: &str) {
    count!("violations");
    bump_named(&format!("violations.{sub}"), 1);
    let n = {
        static PER_SUB: Mutex<BTreeMap<String, usize>> = Mutex::new(BTreeMap::new());
        let mut m = PER_SUB.lock().unwrap();
        let e = m.entry(sub.to_owned()).or_insert(0);
        *e += 1;
        *e - 1
    };
    if n < 3 || REPLAY_MODE.load(Ordering::Relaxed) == 1 {
        let (s, c) = current_case();
        let v = json!({"sub": sub, "sweep_index": s, "case": c, "input": clip(input, 4000),
            "expected": clip(expected, 4000), "actual": clip(actual, 4000)});
        println!("V {v}");
    }
}

// An instance of a known finding (a genuine defect recorded in known_findings.json).
pub fn known(finding: &str, example: impl FnOnce() -> String) {
    bump_named(&format!("known.{finding}"), 1);
    let mut seen = KNOWN_SEEN.lock().unwrap();
    if !seen.iter().any(|f| f == finding) {
        seen.push(finding.to_owned());
        let v = json!({"finding": finding, "example": clip(&example(), 2000)});
        println!("K {v}");
    }
}

pub fn sample(kind: &str, v: impl FnOnce() -> Value) {
    let mut s = SAMPLES.lock().unwrap();
    let e = s.entry(kind.to_owned()).or_default();
    if e.len() < 3 {
        e.push(v());
    }
}

pub fn machinery(msg: &str) {
    count!("machinery_errors");
    let (s, c) = current_case();
    println!("M sweep={s} case={c} {}", clip(msg, 3000).replace('\n', "\\n"));
}

pub fn clip(s: &str, n: usize) -> String {
    if s.len() <= n {
        s.to_owned()
    } else {
        let mut e = n;
        while !s.is_char_boundary(e) {
            e -= 1;
        }
        format!("{}…[{} bytes]", &s[..e], s.len())
    }
}

// ------------------------------------------------------------------------------------------------
// Sweeps and properties.
// ------------------------------------------------------------------------------------------------

pub enum AbortVerdict {
    Allowed(String),
    Known(String, String),
    Violation { sub: String, input: String, expected: String, actual: String },
}

pub struct Sweep {
    pub name: String,
    pub count: u64,
    pub case_timeout_s: u64,
    // At most this many workers take part in the sweep (process launches contend in the kernel).
    pub max_workers: u64,
    // Runs case `idx` against the real code and reports through the functions above.
    pub run: Box<dyn FnMut(u64)>,
    // Human-readable description of the case (for replay artefacts and abort reports).
    pub describe: Box<dyn Fn(u64) -> String>,
    // Decides what an abnormal ending (abort / timeout) of case `idx` means. Must not run the real
    // code path that crashed.
    pub post_abort: Box<dyn Fn(u64, &str) -> AbortVerdict>,
}

impl Sweep {
    pub fn new(
        name: &str,
        count: u64,
        run: impl FnMut(u64) + 'static,
        describe: impl Fn(u64) -> String + 'static,
    ) -> Sweep {
        Sweep {
            name: name.to_owned(),
            count,
            case_timeout_s: 0,
            max_workers: u64::MAX,
            run: Box::new(run),
            describe: Box::new(describe),
            post_abort: Box::new(|_, kind| AbortVerdict::Violation {
                sub: "abnormal-ending".to_owned(),
                input: String::new(),
                expected: "normal termination".to_owned(),
                actual: kind.to_owned(),
            }),
        }
    }
    pub fn with_post_abort(mut self, f: impl Fn(u64, &str) -> AbortVerdict + 'static) -> Sweep {
        self.post_abort = Box::new(f);
        self
    }
    pub fn with_max_workers(mut self, n: u64) -> Sweep {
        self.max_workers = n;
        self
    }
    pub fn with_timeout(mut self, s: u64) -> Sweep {
        self.case_timeout_s = s;
        self
    }
}

pub struct EvidenceSpec {
    pub level: &'static str,
    pub rule: String,
    pub assumptions: Vec<String>,
    // counter names
    pub evaluations: &'static str,
    pub nontrivial: &'static str,
    pub states: Option<&'static str>,
    pub transitions: Option<&'static str>,
    pub traces: Option<&'static str>,
    pub exhaustive: bool,
    pub bounds: Value,
    // vacuity guards: counter must reach this minimum, else machinery failure
    pub minimums: Vec<(&'static str, u64)>,
}

pub trait Prop {
    fn id(&self) -> &'static str;
    fn stack_mb(&self) -> usize {
        16
    }
    fn workers(&self) -> usize {
        16
    }
    fn sweeps(&self, tier: Tier) -> Vec<Sweep>;
    fn evidence(&self, tier: Tier) -> EvidenceSpec;
}

// ------------------------------------------------------------------------------------------------
// Worker.
// ------------------------------------------------------------------------------------------------

fn fmt_u64(buf: &mut [u8], pos: &mut usize, mut v: u64) {
    let mut tmp = [0u8; 20];
    let mut n = 0;
    if v == 0 {
        tmp[0] = b'0';
        n = 1;
    }
    while v > 0 {
        tmp[n] = b'0' + (v % 10) as u8;
        v /= 10;
        n += 1;
    }
    while n > 0 && *pos < buf.len() {
        n -= 1;
        buf[*pos] = tmp[n];
        *pos += 1;
    }
}

fn put(buf: &mut [u8], pos: &mut usize, s: &[u8]) {
    for b in s {
        if *pos < buf.len() {
            buf[*pos] = *b;
            *pos += 1;
        }
    }
}

// Async-signal-safe dump of the case in flight and all counters.
fn raw_dump(tag: &[u8], code: u64) {
    let mut buf = [0u8; 20 * MAX_COUNTERS + 256];
    let mut pos = 0;
    put(&mut buf, &mut pos, b"\n");
    put(&mut buf, &mut pos, tag);
    put(&mut buf, &mut pos, b" ");
    fmt_u64(&mut buf, &mut pos, CUR_SWEEP.load(Ordering::Relaxed) as u64);
    put(&mut buf, &mut pos, b" ");
    fmt_u64(&mut buf, &mut pos, CUR_CASE.load(Ordering::Relaxed));
    put(&mut buf, &mut pos, b" ");
    fmt_u64(&mut buf, &mut pos, code);
    put(&mut buf, &mut pos, b"\nC");
    for c in COUNTERS.iter() {
        put(&mut buf, &mut pos, b" ");
        fmt_u64(&mut buf, &mut pos, c.load(Ordering::Relaxed));
    }
    put(&mut buf, &mut pos, b"\n");
    let mut off = 0;
    while off < pos {
        let n = unsafe { libc::write(1, buf.as_ptr().add(off).cast(), pos - off) };
        if n <= 0 {
            break;
        }
        off += n as usize;
    }
}

extern "C" fn on_fatal_signal(sig: libc::c_int) {
    raw_dump(b"ABORT", sig as u64);
    unsafe { libc::_exit(70) };
}

fn install_handlers() {
    unsafe {
        for sig in [libc::SIGSEGV, libc::SIGBUS, libc::SIGABRT, libc::SIGILL, libc::SIGFPE] {
            let mut sa: libc::sigaction = std::mem::zeroed();
            sa.sa_sigaction = on_fatal_signal as *const () as usize;
            sa.sa_flags = libc::SA_ONSTACK | libc::SA_NODEFER;
            libc::sigemptyset(&mut sa.sa_mask);
            libc::sigaction(sig, &sa, std::ptr::null_mut());
        }
    }
}

// glibc's allocator gives freed memory back to the kernel eagerly (madvise / brk) and takes page
// faults to get it again; with 16 workers inside a VM those faults contend badly. Keep it.
fn tune_allocator() {
    unsafe {
        libc::mallopt(libc::M_ARENA_MAX, 1);
        libc::mallopt(libc::M_TRIM_THRESHOLD, 1 << 30);
        libc::mallopt(libc::M_TOP_PAD, 64 << 20);
        libc::mallopt(libc::M_MMAP_THRESHOLD, 1 << 30);
    }
}

fn set_memory_limit(gib: u64) {
    unsafe {
        let lim = libc::rlimit { rlim_cur: gib << 30, rlim_max: gib << 30 };
        libc::setrlimit(libc::RLIMIT_AS, &lim);
    }
}

fn print_counters() {
    let mut s = String::from("C");
    for c in COUNTERS.iter() {
        s.push(' ');
        s.push_str(&c.load(Ordering::Relaxed).to_string());
    }
    println!("{s}");
}

pub struct WorkerArgs {
    pub prop: String,
    pub tier: Tier,
    pub shard: u64,
    pub nshards: u64,
    pub seed: u64,
    pub resume: Option<(usize, u64)>,
    pub only: Option<(usize, u64)>,
}

// CPU time used by this process / by the calling thread, in milliseconds.
pub fn process_cpu_ms() -> u64 {
    cpu_ms(libc::CLOCK_PROCESS_CPUTIME_ID)
}

// CPU time this thread has spent in *user* mode. Time the kernel spends on the thread's behalf (page
// faults of a 2 GiB stack and of large allocations while sixteen workers and whatever else runs on the
// machine compete for memory) is left out: at a load average of 70 it was seen to push rungs that need a
// few seconds over a 40 s cap. The parser's own work — the thing a cap is meant to bound — is user time.
pub fn thread_cpu_s() -> f64 {
    let mut ru: libc::rusage = unsafe { std::mem::zeroed() };
    if unsafe { libc::getrusage(libc::RUSAGE_THREAD, &mut ru) } != 0 {
        return cpu_ms(libc::CLOCK_THREAD_CPUTIME_ID) as f64 / 1000.0;
    }
    ru.ru_utime.tv_sec as f64 + ru.ru_utime.tv_usec as f64 / 1e6
}

fn cpu_ms(clock: libc::clockid_t) -> u64 {
    let mut ts = libc::timespec { tv_sec: 0, tv_nsec: 0 };
    unsafe { libc::clock_gettime(clock, &mut ts) };
    ts.tv_sec as u64 * 1000 + ts.tv_nsec as u64 / 1_000_000
}

fn worker(args: WorkerArgs) {
    IS_WORKER.store(1, Ordering::Relaxed);
    tune_allocator();
    let prop = crate::props::get(&args.prop);
    set_memory_limit(if prop.stack_mb() > 64 { 24 } else { 8 });
    // Silence the default panic hook: panics of the subject are caught and reported by the checks.
    std::panic::set_hook(Box::new(|_| {}));
    // Watchdog: a case that does not finish within its limit ends the worker. The limit is on the CPU
    // time the process spent on the case, so that a loaded machine cannot turn a slow schedule into an
    // alarm; a case that makes no progress without using the CPU (it waits on something) is ended
    // after eight times the limit of wall-clock time.
    std::thread::spawn(|| {
        let mut last = (u64::MAX, Instant::now(), process_cpu_ms());
        loop {
            std::thread::sleep(Duration::from_millis(50));
            let serial = CASE_SERIAL.load(Ordering::Relaxed);
            if serial != last.0 {
                last = (serial, Instant::now(), process_cpu_ms());
            } else if CUR_CASE.load(Ordering::Relaxed) != u64::MAX {
                let limit = CASE_TIMEOUT_MS.load(Ordering::Relaxed);
                let cpu = process_cpu_ms().saturating_sub(last.2);
                let wall = last.1.elapsed().as_millis() as u64;
                if cpu > limit || wall > 8 * limit {
                    raw_dump(b"TIMEOUT", cpu.max(wall / 8));
                    unsafe { libc::_exit(71) };
                }
            }
        }
    });
    let stack = prop.stack_mb() << 20;
    let handle = std::thread::Builder::new()
        .stack_size(stack)
        .spawn(move || {
            install_handlers();
            let prop = crate::props::get(&args.prop);
            let default_timeout = args.tier.pick(20, 120);
            let mut sweeps = prop.sweeps(args.tier);
            for (si, sweep) in sweeps.iter_mut().enumerate() {
                if let Some((rs, _)) = args.resume
                    && si < rs
                {
                    continue;
                }
                if let Some((os, _)) = args.only
                    && si != os
                {
                    continue;
                }
                let t = if sweep.case_timeout_s == 0 { default_timeout } else { sweep.case_timeout_s };
                CASE_TIMEOUT_MS.store(t * 1000, Ordering::Relaxed);
                CUR_SWEEP.store(si, Ordering::Relaxed);
                let stride = args.nshards.min(sweep.max_workers.max(1));
                let first = (args.shard + args.nshards - (args.seed % args.nshards)) % args.nshards;
                if first >= stride {
                    continue;
                }
                let mut idx = first;
                if let Some((rs, ri)) = args.resume
                    && si == rs
                {
                    while idx <= ri {
                        idx += stride;
                    }
                }
                if let Some((_, oi)) = args.only {
                    idx = oi;
                }
                while idx < sweep.count {
                    // Once a worker has established thousands of violations more of the same add
                    // nothing: the rest of its share is skipped (reported by the driver).
                    if COUNTERS[register("violations")].load(Ordering::Relaxed) > 3000 {
                        bump_named("cut_short_after_3000_violations", 1);
                        break;
                    }
                    CUR_CASE.store(idx, Ordering::Relaxed);
                    CASE_SERIAL.fetch_add(1, Ordering::Relaxed);
                    let r = catch_unwind(AssertUnwindSafe(|| (sweep.run)(idx)));
                    if let Err(e) = r {
                        let msg = panic_message(&e);
                        machinery(&format!(
                            "uncaught panic in sweep {} case {idx}: {msg} :: {}",
                            sweep.name,
                            (sweep.describe)(idx)
                        ));
                    }
                    if args.only.is_some() {
                        break;
                    }
                    idx += stride;
                }
                CUR_CASE.store(u64::MAX, Ordering::Relaxed);
            }
            for (kind, vs) in SAMPLES.lock().unwrap().iter() {
                for v in vs {
                    println!("S {}", json!({"kind": kind, "case": v}));
                }
            }
            print_counters();
            println!("DONE");
            std::io::stdout().flush().ok();
        })
        .unwrap();
    if handle.join().is_err() {
        println!("M worker thread panicked");
        std::process::exit(72);
    }
}

pub fn panic_message(e: &Box<dyn std::any::Any + Send>) -> String {
    if let Some(s) = e.downcast_ref::<&str>() {
        (*s).to_owned()
    } else if let Some(s) = e.downcast_ref::<String>() {
        s.clone()
    } else {
        "<non-string panic payload>".to_owned()
    }
}

// ------------------------------------------------------------------------------------------------
// Driver.
// ------------------------------------------------------------------------------------------------

static ABNORMAL_TOTAL: AtomicUsize = AtomicUsize::new(0);
const ABNORMAL_BUDGET: usize = 48;

#[derive(Default)]
struct Merged {
    cut_short: bool,
    counters: BTreeMap<String, u64>,
    violations: Vec<Value>,
    known_examples: BTreeMap<String, Value>,
    samples: BTreeMap<String, Vec<Value>>,
    machinery: Vec<String>,
    abnormal: Vec<(usize, u64, String)>,
}

struct WorkerResult {
    names: Vec<String>,
    counters: Vec<u64>,
    violations: Vec<Value>,
    known: Vec<Value>,
    samples: Vec<Value>,
    machinery: Vec<String>,
    abnormal: Option<(usize, u64, String)>,
    done: bool,
}

fn run_worker_once(exe: &std::path::Path, a: &[String]) -> WorkerResult {
    let mut child = Command::new(exe)
        .args(a)
        .stdin(Stdio::null())
        .stdout(Stdio::piped())
        .stderr(Stdio::inherit())
        .env("NO_COLOR", "1")
        .spawn()
        .unwrap_or_else(|e| machinery_exit(&format!("cannot spawn worker: {e}")));
    let out = child.stdout.take().unwrap();
    let mut r = WorkerResult {
        names: vec![],
        counters: vec![],
        violations: vec![],
        known: vec![],
        samples: vec![],
        machinery: vec![],
        abnormal: None,
        done: false,
    };
    let mut reader = BufReader::new(out);
    let mut raw = Vec::new();
    loop {
        raw.clear();
        match reader.read_until(b'\n', &mut raw) {
            Ok(0) => break,
            Ok(_) => {}
            Err(_) => break,
        }
        let line = String::from_utf8_lossy(&raw);
        let line = line.trim_end_matches('\n');
        if let Some(rest) = line.strip_prefix("N ") {
            let mut it = rest.splitn(2, ' ');
            let i: usize = it.next().unwrap().parse().unwrap_or(usize::MAX);
            let name = it.next().unwrap_or("").to_owned();
            if i == r.names.len() {
                r.names.push(name);
            }
        } else if let Some(rest) = line.strip_prefix("V ") {
            if let Ok(v) = serde_json::from_str::<Value>(rest) {
                r.violations.push(v);
            }
        } else if let Some(rest) = line.strip_prefix("K ") {
            if let Ok(v) = serde_json::from_str::<Value>(rest) {
                r.known.push(v);
            }
        } else if let Some(rest) = line.strip_prefix("S ") {
            if let Ok(v) = serde_json::from_str::<Value>(rest) {
                r.samples.push(v);
            }
        } else if let Some(rest) = line.strip_prefix("M ") {
            r.machinery.push(rest.to_owned());
        } else if let Some(rest) = line.strip_prefix("C ") {
            r.counters = rest.split(' ').filter_map(|x| x.parse().ok()).collect();
        } else if line.starts_with("ABORT ") || line.starts_with("TIMEOUT ") {
            let parts: Vec<&str> = line.split(' ').collect();
            if parts.len() >= 4 {
                let kind = if parts[0] == "ABORT" {
                    format!("abort(signal {})", parts[3])
                } else {
                    format!("timeout({} ms)", parts[3])
                };
                r.abnormal = Some((
                    parts[1].parse().unwrap_or(usize::MAX),
                    parts[2].parse().unwrap_or(u64::MAX),
                    kind,
                ));
            }
        } else if line == "DONE" {
            r.done = true;
        }
    }
    let status = child.wait().ok();
    if !r.done && r.abnormal.is_none() {
        r.machinery.push(format!("worker ended without DONE or ABORT: status {status:?} args {a:?}"));
    }
    r
}

fn merge(m: &mut Merged, r: WorkerResult) {
    for (i, v) in r.counters.iter().enumerate() {
        if let Some(name) = r.names.get(i) {
            let e = m.counters.entry(name.clone()).or_insert(0);
            if name.starts_with("max.") {
                *e = (*e).max(*v);
            } else {
                *e = e.wrapping_add(*v);
            }
        }
    }
    m.violations.extend(r.violations);
    for k in r.known {
        if let Some(f) = k.get("finding").and_then(Value::as_str) {
            m.known_examples.entry(f.to_owned()).or_insert(k.clone());
        }
    }
    for s in r.samples {
        if let Some(kind) = s.get("kind").and_then(Value::as_str) {
            let e = m.samples.entry(kind.to_owned()).or_default();
            if e.len() < 3 {
                e.push(s.get("case").cloned().unwrap_or(Value::Null));
            }
        }
    }
    m.machinery.extend(r.machinery);
}

fn driver(prop_id: &str, tier: Tier, seed: u64) -> i32 {
    let start = Instant::now();
    let prop = crate::props::get(prop_id);
    let exe = std::env::current_exe().unwrap();
    let ncpu = std::thread::available_parallelism().map(|n| n.get()).unwrap_or(4);
    let nshards = prop.workers().min(ncpu).max(1) as u64;
    let merged = std::sync::Arc::new(Mutex::new(Merged::default()));
    let mut handles = vec![];
    for shard in 0..nshards {
        let exe = exe.clone();
        let merged = merged.clone();
        let prop_id = prop_id.to_owned();
        handles.push(std::thread::spawn(move || {
            let mut resume: Option<(usize, u64)> = None;
            let mut restarts = 0;
            loop {
                let mut a = vec![
                    "worker".to_owned(),
                    prop_id.clone(),
                    tier.name().to_owned(),
                    shard.to_string(),
                    nshards.to_string(),
                    seed.to_string(),
                ];
                if let Some((s, i)) = resume {
                    a.push("--resume".to_owned());
                    a.push(s.to_string());
                    a.push(i.to_string());
                }
                let mut r = run_worker_once(&exe, &a);
                let abnormal = r.abnormal.take();
                let done = r.done;
                {
                    let mut m = merged.lock().unwrap();
                    merge(&mut m, r);
                    if let Some(ab) = &abnormal {
                        m.abnormal.push(ab.clone());
                    }
                }
                match abnormal {
                    Some((s, i, _)) if s != usize::MAX && i != u64::MAX => {
                        restarts += 1;
                        // Abnormal endings come in clusters; beyond a budget the run is cut short (what
                        // was found is reported, the cut is a machinery note, the exit code stays a
                        // verdict only if a violation was established).
                        if ABNORMAL_TOTAL.fetch_add(1, Ordering::Relaxed) >= ABNORMAL_BUDGET {
                            merged.lock().unwrap().cut_short = true;
                            break;
                        }
                        if restarts > 5000 {
                            merged.lock().unwrap().machinery.push(format!(
                                "shard {shard}: more than 5000 abnormal endings; giving up"
                            ));
                            break;
                        }
                        resume = Some((s, i));
                    }
                    Some(_) => {
                        merged
                            .lock()
                            .unwrap()
                            .machinery
                            .push(format!("shard {shard}: abnormal ending outside any case"));
                        break;
                    }
                    None => {
                        let _ = done;
                        break;
                    }
                }
            }
        }));
    }
    for h in handles {
        let _ = h.join();
    }
    let mut m = std::mem::take(&mut *merged.lock().unwrap());

    // Classify abnormal endings in a fresh process each (the classifier re-creates the case and asks
    // the reference models only).
    let abnormal = std::mem::take(&mut m.abnormal);
    *m.counters.entry("abnormal_endings".to_owned()).or_insert(0) += abnormal.len() as u64;
    for (s, i, kind) in &abnormal {
        let a = vec![
            "postabort".to_owned(),
            prop_id.to_owned(),
            tier.name().to_owned(),
            s.to_string(),
            i.to_string(),
            kind.clone(),
        ];
        let r = run_worker_once(&exe, &a);
        let mut any = false;
        for line in &r.machinery {
            if let Some(rest) = line.strip_prefix("ALLOWED ") {
                *m.counters.entry("abnormal_allowed".to_owned()).or_insert(0) += 1;
                let e = m.samples.entry("abnormal_allowed".to_owned()).or_default();
                if e.len() < 3 {
                    e.push(json!(rest));
                }
                any = true;
            }
        }
        for k in &r.known {
            if let Some(f) = k.get("finding").and_then(Value::as_str) {
                *m.counters.entry(format!("known.{f}")).or_insert(0) += 1;
                m.known_examples.entry(f.to_owned()).or_insert(k.clone());
                any = true;
            }
        }
        for v in &r.violations {
            *m.counters.entry("violations".to_owned()).or_insert(0) += 1;
            m.violations.push(v.clone());
            any = true;
        }
        if !any {
            m.machinery.push(format!("postabort gave no verdict for sweep {s} case {i} ({kind})"));
        }
    }

    finish(&*prop, tier, seed, m, start)
}

fn finish(prop: &dyn Prop, tier: Tier, seed: u64, mut m: Merged, start: Instant) -> i32 {
    let id = prop.id();
    let spec = prop.evidence(tier);
    let get = |m: &Merged, k: &str| m.counters.get(k).copied().unwrap_or(0);
    let known_file = crate::findings::load();
    let mut exit = 0;

    // Known findings.
    let mut known_lines = vec![];
    for (name, n) in m.counters.clone() {
        if let Some(f) = name.strip_prefix("known.") {
            if n == 0 {
                continue;
            }
            match known_file.iter().find(|k| k.id == f) {
                Some(k) if k.status == "known" => {
                    let ex = m
                        .known_examples
                        .get(f)
                        .and_then(|v| v.get("example"))
                        .and_then(Value::as_str)
                        .unwrap_or("");
                    known_lines.push(format!(
                        "KNOWN-FINDING: property={id} {f} {} [{n} instance(s) in this run; e.g. {}]",
                        k.title,
                        clip(&ex.replace('\n', "\\n"), 300)
                    ));
                }
                _ => {
                    // A classifier fired for a finding that is not listed as known: report it.
                    let ex = m.known_examples.get(f).cloned().unwrap_or(Value::Null);
                    m.violations.push(json!({"sub": format!("unlisted-finding-{f}"), "input": ex,
                        "expected": "no instance (finding is not listed as known)", "actual": format!("{n} instance(s)")}));
                    *m.counters.entry("violations".to_owned()).or_insert(0) += n;
                }
            }
        }
    }
    for l in &known_lines {
        println!("{l}");
    }

    // Violations -> replay artefacts.
    let nviol = get(&m, "violations");
    let replay_dir = format!("{}/replays", verif_dir());
    std::fs::create_dir_all(&replay_dir).ok();
    if nviol > 0 {
        exit = 1;
        let mut seen_sub = std::collections::BTreeSet::new();
        let mut written = 0;
        for v in &m.violations {
            let sub = v.get("sub").and_then(Value::as_str).unwrap_or("?").to_owned();
            let fresh = seen_sub.insert(sub.clone());
            if (!fresh && written >= 6) || written >= 14 {
                continue;
            }
            let path = format!("{replay_dir}/{id}-{}-{written}.json", tier.name());
            let mut art = v.clone();
            if let Some(o) = art.as_object_mut() {
                o.insert("property".to_owned(), json!(id));
                o.insert("tier".to_owned(), json!(tier.name()));
            }
            std::fs::write(&path, serde_json::to_string_pretty(&art).unwrap()).ok();
            println!("VIOLATION property={id} replay={path}");
            println!(
                "  sub={sub} input={}",
                clip(&v.get("input").map(|x| x.to_string()).unwrap_or_default(), 300)
            );
            println!(
                "  expected={}",
                clip(&v.get("expected").map(|x| x.to_string()).unwrap_or_default(), 300)
            );
            println!(
                "  actual={}",
                clip(&v.get("actual").map(|x| x.to_string()).unwrap_or_default(), 300)
            );
            written += 1;
        }
        if written == 0 {
            let path = format!("{replay_dir}/{id}-{}-0.json", tier.name());
            std::fs::write(&path, json!({"property": id, "note": "violations counted but none captured"}).to_string()).ok();
            println!("VIOLATION property={id} replay={path}");
        }
        println!("{nviol} violation(s) in total");
    }

    if m.cut_short {
        println!("NOTE: more than {ABNORMAL_BUDGET} abnormal endings (aborts / watchdog expiries); the exploration was cut short");
        if nviol == 0 {
            m.machinery.push("exploration cut short by abnormal endings without an established violation".to_owned());
        }
    }
    // Machinery failures (never verdicts).
    for (c, min) in &spec.minimums {
        if m.cut_short {
            break;
        }
        if get(&m, c) < *min {
            m.machinery.push(format!("vacuity guard: counter {c} = {} < {min}", get(&m, c)));
        }
    }
    if !m.machinery.is_empty() {
        for l in m.machinery.iter().take(20) {
            eprintln!("MACHINERY-ERROR: {l}");
        }
        if exit == 0 {
            exit = 2;
        }
    }

    // Evidence.
    let wall = start.elapsed().as_secs_f64();
    let mut samples: Vec<Value> = vec![];
    for (kind, vs) in &m.samples {
        for v in vs.iter().take(2) {
            samples.push(json!({"kind": kind, "case": v}));
        }
    }
    if samples.is_empty() {
        samples.push(json!("no sample recorded"));
    }
    let counters_json: serde_json::Map<String, Value> =
        m.counters.iter().filter(|(k, _)| k.as_str() != "digest").map(|(k, v)| (k.clone(), json!(v))).collect();
    let mut coverage = json!({
        "evaluations": get(&m, spec.evaluations),
        "distinct_nontrivial": get(&m, spec.nontrivial),
        "rule": spec.rule,
        "samples": samples,
        // a run that hit a cap (leaf cap of a choice tree, abnormal-ending budget, violation cut-off)
        // is not called exhaustive; the caps hit are in the counters
        "exhaustive": spec.exhaustive && get(&m, "capped_trees") == 0 && !m.cut_short && get(&m, "cut_short_after_3000_violations") == 0,
        "bounds": spec.bounds,
        "counters": counters_json,
        "outcome_digest": format!("{:016x}", get(&m, "digest")),
        "known_findings_seen": known_lines,
    });
    if let (Some(s), Some(t)) = (spec.states, spec.transitions) {
        let o = coverage.as_object_mut().unwrap();
        o.insert("states".to_owned(), json!(get(&m, s)));
        o.insert("transitions".to_owned(), json!(get(&m, t)));
        o.insert(
            "traces_validated_against_impl".to_owned(),
            json!(spec.traces.map(|t| get(&m, t)).unwrap_or(0)),
        );
    }
    let ev = json!({
        "property_id": id,
        "tier": tier.name(),
        "seed": seed,
        "level": spec.level,
        "coverage": coverage,
        "assumptions": spec.assumptions,
        "wall_s": (wall * 1000.0).round() / 1000.0,
        "violations": nviol,
    });
    let evdir = format!("{}/evidence", verif_dir());
    std::fs::create_dir_all(&evdir).ok();
    std::fs::write(format!("{evdir}/{id}.json"), serde_json::to_string_pretty(&ev).unwrap())
        .unwrap_or_else(|e| machinery_exit(&format!("cannot write evidence: {e}")));
    println!(
        "{id} {}: evaluations={} nontrivial={} violations={nviol} known={} wall={wall:.1}s exit={exit}",
        tier.name(),
        get(&m, spec.evaluations),
        get(&m, spec.nontrivial),
        known_lines.len()
    );
    exit
}

fn postabort(prop_id: &str, tier: Tier, sweep: usize, idx: u64, kind: &str) {
    let prop = crate::props::get(prop_id);
    let stack = prop.stack_mb() << 20;
    let kind = kind.to_owned();
    let prop_id = prop_id.to_owned();
    std::thread::Builder::new()
        .stack_size(stack.max(64 << 20))
        .spawn(move || {
            IS_WORKER.store(1, Ordering::Relaxed);
            let prop = crate::props::get(&prop_id);
            let sweeps = prop.sweeps(tier);
            let Some(sw) = sweeps.get(sweep) else {
                println!("M no such sweep {sweep}");
                return;
            };
            CUR_SWEEP.store(sweep, Ordering::Relaxed);
            CUR_CASE.store(idx, Ordering::Relaxed);
            let desc = (sw.describe)(idx);
            match (sw.post_abort)(idx, &kind) {
                AbortVerdict::Allowed(why) => {
                    println!("M ALLOWED {} :: {}", why.replace('\n', "\\n"), clip(&desc, 500).replace('\n', "\\n"))
                }
                AbortVerdict::Known(f, ex) => {
                    println!("K {}", json!({"finding": f, "example": clip(&ex, 2000)}))
                }
                AbortVerdict::Violation { sub, input, expected, actual } => {
                    let input = if input.is_empty() { desc } else { input };
                    println!(
                        "V {}",
                        json!({"sub": sub, "sweep_index": sweep, "case": idx, "sweep": sw.name,
                            "input": clip(&input, 4000), "expected": expected, "actual": format!("{actual} [{kind}]")})
                    );
                }
            }
            println!("DONE");
        })
        .unwrap()
        .join()
        .ok();
}

fn replay(path: &str) -> i32 {
    let text = std::fs::read_to_string(path).unwrap_or_else(|e| machinery_exit(&format!("{e}")));
    let v: Value = serde_json::from_str(&text).unwrap_or_else(|e| machinery_exit(&format!("{e}")));
    let prop_id = v.get("property").and_then(Value::as_str).unwrap_or_else(|| machinery_exit("no property"));
    let tier = Tier::parse(v.get("tier").and_then(Value::as_str).unwrap_or("quick"));
    let sweep = v.get("sweep_index").and_then(Value::as_u64).unwrap_or_else(|| machinery_exit("no sweep_index")) as usize;
    let case = v.get("case").and_then(Value::as_u64).unwrap_or_else(|| machinery_exit("no case"));
    println!("replaying {prop_id} {} sweep {sweep} case {case}", tier.name());
    println!("recorded input: {}", v.get("input").unwrap_or(&Value::Null));
    let exe = std::env::current_exe().unwrap();
    let a = vec![
        "worker".to_owned(),
        prop_id.to_owned(),
        tier.name().to_owned(),
        "0".to_owned(),
        "1".to_owned(),
        "0".to_owned(),
        "--only".to_owned(),
        sweep.to_string(),
        case.to_string(),
    ];
    let r = run_worker_once(&exe, &a);
    let mut bad = false;
    for v in &r.violations {
        println!("VIOLATION property={prop_id} replay={path}");
        println!("{}", serde_json::to_string_pretty(v).unwrap());
        bad = true;
    }
    for k in &r.known {
        println!("KNOWN-FINDING: property={prop_id} {k}");
    }
    if let Some((_, _, kind)) = &r.abnormal {
        println!("abnormal ending: {kind}");
        bad = true;
    }
    for l in &r.machinery {
        println!("machinery: {l}");
    }
    if bad { 1 } else { 0 }
}

pub fn main_entry() {
    let args: Vec<String> = std::env::args().collect();
    if args.len() < 2 {
        machinery_exit("usage: engine driver <PROP> <tier> | worker ... | replay <file> | list");
    }
    match args[1].as_str() {
        "driver" => {
            let seed = std::env::var("VERIF_SEED").ok().and_then(|s| s.parse().ok()).unwrap_or(0);
            let code = driver(&args[2], Tier::parse(&args[3]), seed);
            std::process::exit(code);
        }
        "worker" => {
            let mut resume = None;
            let mut only = None;
            let mut i = 7;
            while i < args.len() {
                match args[i].as_str() {
                    "--resume" => {
                        resume = Some((args[i + 1].parse().unwrap(), args[i + 2].parse().unwrap()));
                        i += 3;
                    }
                    "--only" => {
                        REPLAY_MODE.store(1, Ordering::Relaxed);
                        only = Some((args[i + 1].parse().unwrap(), args[i + 2].parse().unwrap()));
                        i += 3;
                    }
                    _ => i += 1,
                }
            }
            worker(WorkerArgs {
                prop: args[2].clone(),
                tier: Tier::parse(&args[3]),
                shard: args[4].parse().unwrap(),
                nshards: args[5].parse().unwrap(),
                seed: args[6].parse().unwrap(),
                resume,
                only,
            });
        }
        "postabort" => {
            postabort(
                &args[2],
                Tier::parse(&args[3]),
                args[4].parse().unwrap(),
                args[5].parse().unwrap(),
                &args[6],
            );
        }
        "replay" => {
            std::process::exit(replay(&args[2]));
        }
        "list" => {
            for p in crate::props::all() {
                println!("{p}");
            }
        }
        other => {
            if !crate::props::extra_command(other, &args[2..]) {
                machinery_exit(&format!("unknown command {other}"));
            }
        }
    }
}
