// The evaluator-graph checks C01, C02, C03, C04, C06 share one traversal: front end, then the real
// `step` relation one step at a time with a monitor per property.
use crate::{
    bind::{self, RunEnd},
    enumerate::typed::Ty,
    infra::{AbortVerdict, EvidenceSpec, Prop, Sweep, Tier, violation},
    model::{
        interp::{self, Outcome, Stuck, Val},
        mterm::{M, Op, mirror},
        surface::{self, S, bx},
        typing::{self, Conv},
    },
    props::{
        c13,
        sem::{self, Accepted, FrontEnd, RefVerdict},
    },
};
use serde_json::json;
use std::{cell::RefCell, rc::Rc};

#[derive(Clone, Copy, PartialEq, Eq, Debug)]
pub enum Which {
    C01,
    C02,
    C03,
    C04,
    C06,
}

pub fn horizon(tier: Tier) -> usize {
    tier.pick(300, 3000)
}

fn outcome_key(o: &Outcome) -> String {
    match o {
        Outcome::Value(v) if v.is_ground() => format!("value {}", v.describe()),
        Outcome::Value(Val::Pi) => "value <function type>".into(),
        Outcome::Value(_) => "value <function>".into(),
        other => other.describe(),
    }
}

// Everything the five monitors need to know about one program.
pub fn examine(text: &str, which: Which, tier: Tier) {
    examine_at(text, which, tier, 0)
}

// Closed arguments of the simple type `t` (int, bool, type and non-dependent explicit function types
// over them), as source text and as a term; two per base type so that both branches of a test on the
// argument are taken.
fn inhabitants(t: &M, first_only: bool) -> Vec<(String, M)> {
    use crate::model::mterm::rc;
    let mut v: Vec<(String, M)> = match t {
        M::Int => vec![("0".to_owned(), M::Lit(0.into())), ("3".to_owned(), M::Lit(3.into()))],
        M::Bool => vec![("true".to_owned(), M::True), ("false".to_owned(), M::False)],
        M::Type => vec![("int".to_owned(), M::Int), ("bool".to_owned(), M::Bool)],
        M::Pi(_, false, a, b) => {
            let (Some(b), true) = (crate::model::mterm::shift(b, 0, -1), sem::is_closed(a)) else { return vec![] };
            // a function between base types *uses* its argument, so an argument of the wrong kind that
            // a wrongly accepted program hands to it gets stuck instead of being ignored
            let using: Option<(&str, M)> = {
                let w = || rc(M::Var(Rc::from("w"), 0));
                let lit = |n: i32| rc(M::Lit(n.into()));
                match (&**a, &b) {
                    (M::Int, M::Int) => Some(("((w : int) => w + 1)", M::Bin(crate::model::mterm::Op::Add, w(), lit(1)))),
                    (M::Int, M::Bool) => Some(("((w : int) => w < 1)", M::Bin(crate::model::mterm::Op::Lt, w(), lit(1)))),
                    (M::Bool, M::Int) => Some(("((w : bool) => if w then 1 else 0)", M::If(w(), lit(1), lit(0)))),
                    (M::Bool, M::Bool) => Some(("((w : bool) => if w then false else true)", M::If(w(), rc(M::False), rc(M::True)))),
                    _ => None,
                }
            };
            if let Some((text, body)) = using {
                return vec![(text.to_owned(), M::Lam(Rc::from("w"), false, a.clone(), rc(body)))];
            }
            let dom = surface::print(&sem::m_to_s(a, &mut vec![]));
            inhabitants(&b, true)
                .into_iter()
                .map(|(r, m)| (format!("((w : {dom}) => {r})"), M::Lam(Rc::from("w"), false, a.clone(), rc(crate::model::mterm::shift(&m, 0, 1).unwrap()))))
                .collect()
        }
        _ => vec![],
    };
    if first_only {
        v.truncate(1);
    }
    v
}

// Elimination contexts. An accepted program whose reported type is a function type over a simple domain
// is, applied to a closed argument of that domain, another program: `(P) a`. If the front end accepts it
// (it should; if it does not, nothing is concluded) it is examined like every other program, and so are
// its applications to a second, third and fourth argument (two candidate arguments for the first
// parameter, one for each further one) and, when the result is an integer or a boolean, the result used
// as one (`(..) + 1`, `if (..) then 1 else 2`). This is where a checker that accepted P at the wrong type shows
// at run time: the monitors of C01, C02, C04 and C06 see the states of `(P) a`.
// The only type-level computation that `(P) a` adds to that of P is the instance of the codomain at a;
// an argument for which the reference does not bring that instance to weak-head normal form well within
// its fuel is left out (divergence written in the program is not a finding).
fn applications(text: &str, ty: &M, which: Which, tier: Tier, depth: usize) {
    if ty.has_hole() {
        return;
    }
    // the result of an application, used where its reported type says it can be used
    if (1..=4).contains(&depth) {
        match ty {
            M::Int => {
                count!("derived_uses");
                examine_at(&format!("({text}) + 1"), which, tier, 9);
            }
            M::Bool => {
                count!("derived_uses");
                examine_at(&format!("if ({text}) then 1 else 2"), which, tier, 9);
            }
            _ => {}
        }
    }
    if depth >= 4 {
        return;
    }
    let mut ck = typing::Checker::new(sem::TYPING_FUEL / 4);
    let (dom, cod) = match ck.eval(&typing::Env::Nil, ty) {
        typing::V::Pi(false, dom, cod) => {
            let d = ck.force(&dom);
            (ck.quote(0, &d), cod)
        }
        _ => return,
    };
    if ck.exhausted || dom.has_hole() {
        return;
    }
    for (a, am) in inhabitants(&dom, depth > 0) {
        let mut ck = typing::Checker::new(2_000);
        let av = ck.eval(&typing::Env::Nil, &am);
        let _ = ck.instantiate(&cod, typing::done(av));
        if ck.exhausted {
            count!("skipped_divergent");
            continue;
        }
        count!("derived_applications");
        examine_at(&format!("({text}) {a}"), which, tier, depth + 1);
    }
}

fn examine_at(text: &str, which: Which, tier: Tier, depth: usize) {
    count!("evaluations");
    sem::front_end(text, |f| match f {
        FrontEnd::Panic { stage, message } => {
            // a panic is C14's finding; it is reported here too because it is also "not a value / not progress"
            if which == Which::C03 || which == Which::C01 {
                violation(&format!("{stage}-panic"), text, "a verdict", &format!("panic: {message}"));
            }
        }
        FrontEnd::Rejected { order_only, .. } => {
            count!("rejected");
            if order_only {
                count!("rejected_by_definition_order_check");
            }
        }
        FrontEnd::Accepted(acc) => {
            count!("accepted");
            if acc.source_has_holes {
                count!("accepted_with_holes");
            }
            if depth > 0 {
                count!("derived_applications_accepted");
            }
            match which {
                Which::C03 => soundness(text, &acc),
                // C06 normalises the program the way the checker would: an application that does not
                // terminate in the reference (a recursive function applied for the first time) is
                // divergence written in the program, not a finding
                Which::C06 if depth > 0 && !matches!(interp::run(&acc.source, 20_000), Outcome::Value(_) | Outcome::DivisionByZero) => count!("skipped_divergent"),
                _ => run(text, &acc, which, tier, depth),
            }
            applications(text, &acc.ty, which, tier, depth);
        }
    });
}

// C03: the elaborated term is well typed with the reported type, as judged by the reference.
fn soundness(text: &str, acc: &Accepted) {
    if !sem::is_closed(&acc.elab) {
        violation("elaborated-term-ill-scoped", text, "a closed elaborated term", &acc.elab.show());
        return;
    }
    match sem::reference_check(&acc.elab, Some(&acc.ty)) {
        RefVerdict::WellTyped => {
            count!("reference_confirms");
            count!("nontrivial");
        }
        RefVerdict::Unknown => count!("skipped_fuel"),
        RefVerdict::WrongType(t) => {
            if sem::is_hole_copy_defect(acc) || sem::has_orphan_copy(acc, &acc.ty) {
                crate::infra::known("F-HOLE-COPY", || text.to_owned());
            } else {
                violation("reported-type-is-not-the-type", text, &format!("the elaborated term {} has type {}", acc.elab.show(), acc.ty.show()), &format!("the reference derives {t}"));
            }
        }
        RefVerdict::IllTyped(e) => {
            if sem::is_hole_copy_defect(acc) {
                crate::infra::known("F-HOLE-COPY", || text.to_owned());
            } else if is_annotation_defect(acc) {
                crate::infra::known("F-ANNOT", || text.to_owned());
            } else {
                violation("ill-typed-program-accepted", text, "rejected with a diagnostic (the independent checker rejects the elaborated term)", &format!("accepted as {} : {}; reference: {e}", acc.elab.show(), acc.ty.show()));
            }
        }
    }
}

// Finding F-ANNOT: the annotation of a definition is never type checked. Model of the defect: the
// reference accepts the elaborated term once every definition annotation that is not itself a type is
// left unchecked, i.e. the reference's only complaints are about definition annotations.
fn is_annotation_defect(acc: &Accepted) -> bool {
    if !crate::findings::is_known("F-ANNOT") {
        return false;
    }
    let mut ck = typing::Checker::new(sem::TYPING_FUEL);
    ck.skip_definition_annotations = true;
    let r = ck.infer(&typing::Ctx::empty(), &acc.elab);
    !ck.exhausted && r.is_ok()
}

fn run(text: &str, acc: &Accepted, which: Which, tier: Tier, depth: usize) {
    let h = horizon(tier);
    // expectations from the reference, computed on the source program (annotations play no part)
    let expected = if which == Which::C02 { Some(interp::run(&acc.source, sem::INTERP_FUEL)) } else { None };
    let mut prev: Option<crate::term::Term> = None;
    let start_hole_free = !acc.elab.has_hole();
    let ground_type = matches!(acc.ty, M::Int | M::Bool);
    let mut bad = false;
    let r = sem::evaluator_graph(acc.elab_real, h, |k, real_state, state| {
        count!("states");
        if k > 0 {
            count!("transitions");
        }
        if bad {
            return;
        }
        match which {
            Which::C02 => {
                // semantic invariance: every state means what the source program means
                if k <= 40 || k % 16 == 0 {
                    let here = interp::run(state, sem::INTERP_FUEL);
                    let exp = expected.as_ref().unwrap();
                    if !matches!(here, Outcome::OutOfFuel) && !matches!(exp, Outcome::OutOfFuel) {
                        // (a source that is itself stuck in the reference is C01's business: then every state
                        // is stuck too and the keys agree)
                        if outcome_key(&here) != outcome_key(exp) {
                            violation(
                                "step-changes-meaning",
                                text,
                                &format!("every state evaluates to {} in the reference", outcome_key(exp)),
                                &format!("state {k}: {} evaluates to {}", crate::infra::clip(&state.show(), 600), outcome_key(&here)),
                            );
                            bad = true;
                        } else {
                            count!("traces_validated");
                        }
                    }
                }
            }
            Which::C04 => {
                // subject reduction: every state has the reported type (the first 25 states; the first 8
                // of a derived application)
                if k <= if depth > 0 { 7 } else { 24 } {
                    match sem::reference_check(state, Some(&acc.ty)) {
                        RefVerdict::WellTyped => count!("traces_validated"),
                        RefVerdict::Unknown => count!("skipped_fuel"),
                        RefVerdict::WrongType(e) | RefVerdict::IllTyped(e) => {
                            if sem::is_hole_copy_defect(acc) || sem::has_orphan_copy(acc, &acc.ty) {
                                crate::infra::known("F-HOLE-COPY", || text.to_owned());
                            } else if is_annotation_defect(acc) {
                                crate::infra::known("F-ANNOT", || text.to_owned());
                            } else if state.has_hole() {
                                // an unsolved hole in a state: judged by C01 (F-HOLE-UNSOLVED), not here
                                count!("states_with_holes");
                            } else {
                                violation(
                                    "state-does-not-have-the-reported-type",
                                    text,
                                    &format!("every state has type {}", acc.ty.show()),
                                    &format!("state {k}: {} : {e}", crate::infra::clip(&state.show(), 600)),
                                );
                            }
                            bad = true;
                        }
                    }
                }
            }
            Which::C06 => {
                // every term is judged equal to itself and to any term it reduces to
                if start_hole_free && ground_type && k <= 30 && !state.has_hole() {
                    let mut dc = vec![];
                    let refl = bind::guard(|| crate::unifier::unify(real_state, real_state, &mut dc));
                    let to_start = bind::guard(|| crate::unifier::unify(acc.elab_real, real_state, &mut dc));
                    let from_prev = match &prev {
                        Some(p) => bind::guard(|| crate::unifier::unify(p, real_state, &mut dc)),
                        None => Ok(true),
                    };
                    for (name, r) in [("unify(s, s)", refl), ("unify(s0, s)", to_start), ("unify(s_prev, s)", from_prev)] {
                        match r {
                            Ok(true) => count!("traces_validated"),
                            Ok(false) => {
                                violation("reduct-not-judged-equal", text, &format!("{name} = true for the state s reached after {k} steps"), &format!("false; s = {}", crate::infra::clip(&state.show(), 600)));
                                bad = true;
                            }
                            Err(m) => {
                                violation("unify-panic", text, "true", &format!("panic: {m}"));
                                bad = true;
                            }
                        }
                    }
                    if !dc.is_empty() {
                        violation("context-not-restored", text, "empty definitions context after unify", &format!("{} entries", dc.len()));
                    }
                    prev = Some(real_state.clone());
                }
            }
            _ => {}
        }
    });
    if bad {
        return;
    }
    match (&r.end, which) {
        (RunEnd::Panic(m), _) => violation("step-panic", text, "a step or a value", &format!("panic: {m}")),
        (RunEnd::Horizon, _) => count!("horizon_reached"),
        (RunEnd::Stuck, Which::C01) => {
            // Allowed only when the active redex is a division by zero, as decided by the reference.
            match interp::run(&r.last, sem::INTERP_FUEL) {
                Outcome::DivisionByZero => {
                    count!("stuck_on_division_by_zero");
                    count!("nontrivial");
                }
                Outcome::Stuck(reason) => classify_stuck(text, acc, &r.last, &reason),
                other => violation(
                    "stuck-but-reference-continues",
                    text,
                    &format!("a step: the reference evaluates the state to {}", other.describe()),
                    &format!("stuck at {}", crate::infra::clip(&r.last.show(), 600)),
                ),
            }
        }
        (RunEnd::Stuck, _) => count!("stuck_deferred_to_C01"),
        (RunEnd::Value, Which::C01) => {
            count!("reached_value");
            count!("nontrivial");
        }
        (RunEnd::Value, Which::C02) => {
            let exp = expected.as_ref().unwrap();
            match exp {
                Outcome::OutOfFuel => count!("skipped_fuel"),
                Outcome::Value(v) => {
                    let got = interp::run(&r.last, 1000);
                    let same = match (v, &r.last) {
                        (Val::Int(n), M::Lit(m)) => n == m,
                        (Val::Bool(b), M::True) => *b,
                        (Val::Bool(b), M::False) => !*b,
                        (Val::Type, M::Type) | (Val::IntTy, M::Int) | (Val::BoolTy, M::Bool) => true,
                        (Val::Pi, M::Pi(..)) | (Val::Clo(..), M::Lam(..)) => true,
                        _ => false,
                    };
                    if same {
                        count!("value_as_prescribed");
                        if v.is_ground() {
                            count!("nontrivial");
                        }
                    } else {
                        violation("wrong-value", text, &format!("the value {}", v.describe()), &format!("{} ({})", r.last.show(), got.describe()));
                    }
                }
                other => violation("value-where-reference-has-none", text, &other.describe(), &format!("value {}", r.last.show())),
            }
        }
        (RunEnd::Value, Which::C04) => {
            // canonical forms
            let mut ck = typing::Checker::new(sem::TYPING_FUEL);
            let tv = ck.eval(&typing::Env::Nil, &acc.ty);
            let ok = match (&tv, &r.last) {
                (typing::V::Int, M::Lit(_)) => true,
                (typing::V::Bool, M::True | M::False) => true,
                (typing::V::Pi(..), M::Lam(..)) => true,
                (typing::V::Type, M::Type | M::Int | M::Bool | M::Pi(..)) => true,
                (typing::V::N(_), _) => {
                    count!("neutral_type");
                    true
                }
                _ => false,
            };
            if ck.exhausted {
                count!("skipped_fuel");
            } else if ok {
                count!("value_inhabits_type");
                count!("nontrivial");
            } else if sem::is_hole_copy_defect(acc) {
                crate::infra::known("F-HOLE-COPY", || text.to_owned());
            } else {
                violation("value-not-canonical-for-type", text, &format!("a canonical value of type {}", acc.ty.show()), &r.last.show());
            }
        }
        (RunEnd::Value, Which::C06) => {
            // normalising the way the checker does yields the same literal that running yields
            if ground_type && start_hole_free {
                let mut dc = vec![];
                match bind::guard(|| crate::normalizer::normalize_weak_head(acc.elab_real, &mut dc)) {
                    Err(m) => violation("normalize-panic", text, &r.last.show(), &format!("panic: {m}")),
                    Ok(nf) => {
                        let nf = mirror(&nf);
                        if nf.alpha_eq(&r.last) && matches!(nf, M::Lit(_) | M::True | M::False) {
                            count!("normal_form_equals_value");
                            count!("nontrivial");
                        } else {
                            violation("normal-form-differs-from-value", text, &format!("normalize_weak_head = the value {}", r.last.show()), &nf.show());
                        }
                    }
                }
            }
        }
        _ => {}
    }
}

// F-ORDER-VALUE seen from a stuck state: the reference reports an unavailable definition from that
// state and every definition of that name in the state is a syntactic value.
pub fn is_order_value_stuck(last: &M) -> bool {
    if let Outcome::Stuck(Stuck::Unavailable(name)) = interp::run(last, sem::INTERP_FUEL) {
        let mut defs = vec![];
        sem::definitions_named(last, &name, &mut defs);
        !defs.is_empty() && defs.iter().all(|d| sem::is_syntactic_value(d))
    } else {
        false
    }
}

fn classify_stuck(text: &str, acc: &Accepted, last: &M, reason: &Stuck) {
    match reason {
        Stuck::Hole => {
            if crate::findings::is_known("F-HOLE-UNSOLVED") && acc.unresolved_after {
                crate::infra::known("F-HOLE-UNSOLVED", || text.to_owned());
                return;
            }
        }
        Stuck::Unavailable(name) => {
            // F-ORDER-VALUE: the unavailable variable's definition is a syntactic value (the ordering
            // check treats it as available, the evaluator substitutes strictly in order)
            let mut defs = vec![];
            sem::definitions_named(last, name, &mut defs);
            if crate::findings::is_known("F-ORDER-VALUE") && !defs.is_empty() && defs.iter().all(|d| sem::is_syntactic_value(d)) {
                crate::infra::known("F-ORDER-VALUE", || text.to_owned());
                return;
            }
        }
        Stuck::NotAFunction | Stuck::WrongOperand => {
            if sem::is_hole_copy_defect(acc) {
                crate::infra::known("F-HOLE-COPY", || text.to_owned());
                return;
            }
            if is_annotation_defect(acc) {
                crate::infra::known("F-ANNOT", || text.to_owned());
                return;
            }
        }
        Stuck::FreeVariable => {}
    }
    violation(
        &format!("stuck-{}", match reason {
            Stuck::Hole => "on-unfilled-hole".to_owned(),
            Stuck::Unavailable(_) => "on-unavailable-definition".to_owned(),
            Stuck::NotAFunction => "calling-a-non-function".to_owned(),
            Stuck::WrongOperand => "on-operand-of-the-wrong-kind".to_owned(),
            Stuck::FreeVariable => "on-free-variable".to_owned(),
        }),
        text,
        "a value, a further step, or a division by zero",
        &format!("stuck ({reason:?}) at {}", crate::infra::clip(&last.show(), 600)),
    );
}

// ------------------------------------------------------------------------------------------------
// Program spaces.
// ------------------------------------------------------------------------------------------------

// Variants of a fully annotated program with annotations omitted: each single annotation, and all.
pub fn annotation_variants(s: &S) -> Vec<S> {
    fn count(s: &S) -> usize {
        match s {
            S::Lam { ann, body, .. } => usize::from(ann.is_some()) + ann.as_ref().map_or(0, |a| count(a)) + count(body),
            S::Let { ann, def, body, .. } => usize::from(ann.is_some()) + ann.as_ref().map_or(0, |a| count(a)) + count(def) + count(body),
            S::Pi { dom, cod, .. } => count(dom) + count(cod),
            S::App(a, b) | S::Bin(_, a, b) => count(a) + count(b),
            S::Neg(a) | S::Paren(a) => count(a),
            S::If(a, b, c) => count(a) + count(b) + count(c),
            _ => 0,
        }
    }
    // drop the annotations whose index is in `which` (pre-order numbering); u64 bitmask
    fn drop(s: &S, which: u64, next: &mut usize, hole: bool) -> S {
        match s {
            S::Lam { name, implicit, ann, body } => {
                let mut new_ann = None;
                if let Some(a) = ann {
                    let me = *next;
                    *next += 1;
                    let inner = drop(a, which, next, hole);
                    new_ann = if which & (1 << me) != 0 { if hole { Some(bx(S::Var("_".to_owned()))) } else { None } } else { Some(bx(inner)) };
                }
                S::Lam { name: name.clone(), implicit: *implicit, ann: new_ann, body: bx(drop(body, which, next, hole)) }
            }
            S::Let { name, ann, def, body } => {
                let mut new_ann = None;
                if let Some(a) = ann {
                    let me = *next;
                    *next += 1;
                    let inner = drop(a, which, next, hole);
                    new_ann = if which & (1 << me) != 0 { if hole { Some(bx(S::Var("_".to_owned()))) } else { None } } else { Some(bx(inner)) };
                }
                S::Let { name: name.clone(), ann: new_ann, def: bx(drop(def, which, next, hole)), body: bx(drop(body, which, next, hole)) }
            }
            S::Pi { name, implicit, dom, cod } => S::Pi { name: name.clone(), implicit: *implicit, dom: bx(drop(dom, which, next, hole)), cod: bx(drop(cod, which, next, hole)) },
            S::App(a, b) => S::App(bx(drop(a, which, next, hole)), bx(drop(b, which, next, hole))),
            S::Bin(o, a, b) => S::Bin(*o, bx(drop(a, which, next, hole)), bx(drop(b, which, next, hole))),
            S::Neg(a) => S::Neg(bx(drop(a, which, next, hole))),
            S::Paren(a) => S::Paren(bx(drop(a, which, next, hole))),
            S::If(a, b, c) => S::If(bx(drop(a, which, next, hole)), bx(drop(b, which, next, hole)), bx(drop(c, which, next, hole))),
            other => other.clone(),
        }
    }
    let k = count(s).min(20);
    let mut out = vec![];
    for i in 0..k {
        out.push(drop(s, 1 << i, &mut 0, false));
        out.push(drop(s, 1 << i, &mut 0, true));
    }
    if k >= 2 {
        out.push(drop(s, (1 << k) - 1, &mut 0, false));
    }
    out
}

// Single-point perturbations: at every subterm position (annotations included), the subterm replaced
// by an atom of each class; one argument of an application dropped; the two operands of an operator
// swapped with a function.
pub fn perturbations(s: &S) -> Vec<S> {
    fn atoms() -> Vec<S> {
        vec![
            S::Lit("0".to_owned()),
            S::True,
            S::Int,
            S::Lam { name: "w".to_owned(), implicit: false, ann: Some(bx(S::Int)), body: bx(S::Var("w".to_owned())) },
        ]
    }
    // all results of rewriting exactly one position of s
    fn go(s: &S) -> Vec<S> {
        let mut out = vec![];
        // replace this node
        for a in atoms() {
            if a != *s {
                out.push(a);
            }
        }
        if let S::App(f, _) = s {
            out.push((**f).clone());
        }
        // implicitness is part of a function's type: toggle it
        match s {
            S::Lam { name, implicit, ann, body } => out.push(S::Lam { name: name.clone(), implicit: !*implicit, ann: ann.clone(), body: body.clone() }),
            S::Pi { name: Some(n), implicit, dom, cod } => out.push(S::Pi { name: Some(n.clone()), implicit: !*implicit, dom: dom.clone(), cod: cod.clone() }),
            _ => {}
        }
        // or rewrite inside one child
        let mut with = |make: &dyn Fn(S) -> S, child: &S| {
            for c in go(child) {
                out.push(make(c));
            }
        };
        match s {
            S::Lam { name, implicit, ann, body } => {
                if let Some(a) = ann {
                    with(&|c| S::Lam { name: name.clone(), implicit: *implicit, ann: Some(bx(c)), body: body.clone() }, a);
                }
                with(&|c| S::Lam { name: name.clone(), implicit: *implicit, ann: ann.clone(), body: bx(c) }, body);
            }
            S::Pi { name, implicit, dom, cod } => {
                with(&|c| S::Pi { name: name.clone(), implicit: *implicit, dom: bx(c), cod: cod.clone() }, dom);
                with(&|c| S::Pi { name: name.clone(), implicit: *implicit, dom: dom.clone(), cod: bx(c) }, cod);
            }
            S::App(a, b) => {
                with(&|c| S::App(bx(c), b.clone()), a);
                with(&|c| S::App(a.clone(), bx(c)), b);
            }
            S::Bin(o, a, b) => {
                with(&|c| S::Bin(*o, bx(c), b.clone()), a);
                with(&|c| S::Bin(*o, a.clone(), bx(c)), b);
            }
            S::Let { name, ann, def, body } => {
                if let Some(a) = ann {
                    with(&|c| S::Let { name: name.clone(), ann: Some(bx(c)), def: def.clone(), body: body.clone() }, a);
                }
                with(&|c| S::Let { name: name.clone(), ann: ann.clone(), def: bx(c), body: body.clone() }, def);
                with(&|c| S::Let { name: name.clone(), ann: ann.clone(), def: def.clone(), body: bx(c) }, body);
            }
            S::Neg(a) => with(&|c| S::Neg(bx(c)), a),
            S::Paren(a) => with(&|c| S::Paren(bx(c)), a),
            S::If(a, b, c3) => {
                with(&|c| S::If(bx(c), b.clone(), c3.clone()), a);
                with(&|c| S::If(a.clone(), bx(c), c3.clone()), b);
                with(&|c| S::If(a.clone(), b.clone(), bx(c)), c3);
            }
            _ => {}
        }
        out
    }
    go(s)
}

pub struct Spaces {
    pub typed: bool,
    pub typed_variants: bool,
    pub perturbed: bool,
    pub small: bool,
    pub alias: bool,
    pub order_family: bool,
    pub recursion: bool,
    pub operands: bool,
}

fn typed_sweep(which: Which, tier: Tier, variants: bool, perturbed: bool) -> Sweep {
    let progs = sem::typed_programs(sem::typed_size(tier));
    let p2 = progs.clone();
    // for C01 / C04 the perturbations are applied to the programs of the smaller sizes only
    let small = sem::typed_programs_count(sem::typed_size(tier) - 1);
    let perturb_limit = small as u64;
    Sweep::new(
        &format!(
            "type-directed programs{}{}",
            if variants { " + variants with annotations omitted / replaced by _" } else { "" },
            if perturbed { " + all single-point perturbations" } else { "" }
        ),
        progs.len() as u64,
        move |idx| {
            let (_, s) = &progs[idx as usize];
            examine(&surface::print(s), which, tier);
            if variants {
                for v in annotation_variants(s) {
                    count!("annotation_variants");
                    examine(&surface::print(&v), which, tier);
                }
            }
            // quick tier: the programs of the largest size get the annotation variants only
            if perturbed && ((which == Which::C03 && tier == Tier::Thorough) || idx < perturb_limit) {
                for v in perturbations(s) {
                    count!("perturbations");
                    examine(&surface::print(&v), which, tier);
                }
            }
            if idx % 20_000 == 3 {
                crate::infra::sample("typed-program", || json!(surface::print(s)));
            }
        },
        move |idx| format!("{} (and its variants)", surface::print(&p2[idx as usize].1)),
    )
    // thorough tier of C03 / C04: a worker holds the 7-node program list and the reference checker's
    // garbage for 6.5 M perturbed programs and their derived applications (4-5 GB each); sixteen of them
    // were killed by the kernel for lack of memory once (a machinery error, not a verdict), eight fit
    .with_max_workers(if tier == Tier::Thorough && matches!(which, Which::C03 | Which::C04) { 8 } else { 16 })
    .with_post_abort(abort_verdict)
}

// An abnormal ending during a semantic sweep: allowed when the divergence is written in the program
// (some piece does not normalise in the reference, or the reference rejects / cannot judge it);
// a violation when the reference checks the whole program within fuel.
fn abort_verdict(_idx: u64, kind: &str) -> AbortVerdict {
    AbortVerdict::Violation {
        sub: "abnormal-ending".to_owned(),
        input: String::new(),
        expected: "normal termination: every program of this sweep was pre-screened by the reference for divergent pieces".to_owned(),
        actual: kind.to_owned(),
    }
}

// Pre-screen: should the real checker be run on this program at all?
pub fn screened(text: &str) -> bool {
    // Parse with the real parser (always terminates), then ask the reference about divergent pieces.
    let divergent = bind::with_front(text, &[], 2, |f| match f {
        bind::Front::TypeErr { term, .. } | bind::Front::Ok { term, .. } => sem::has_divergent_piece(&mirror(term)),
        _ => false,
    });
    if divergent {
        count!("skipped_divergent");
    }
    !divergent
}

fn small_sweep(which: Which, tier: Tier) -> Sweep {
    let max_nodes = tier.pick(6, 7);
    let space = Rc::new(RefCell::new(sem::small_term_space()));
    let total = space.borrow_mut().total_upto(max_nodes);
    let s2 = space.clone();
    let text_of = |m: &M| surface::print(&sem::m_to_s(m, &mut vec![]));
    Sweep::new(
        "all closed fully annotated terms over a small alphabet",
        total,
        move |idx| {
            let m = space.borrow_mut().unrank_global(max_nodes, idx);
            if !sem::is_closed(&m) {
                return;
            }
            if sem::has_divergent_piece(&m) {
                count!("skipped_divergent");
                return;
            }
            examine(&text_of(&m), which, tier);
        },
        move |idx| text_of(&s2.borrow_mut().unrank_global(max_nodes, idx)),
    )
    .with_post_abort(abort_verdict)
}

fn alias_sweep(which: Which, tier: Tier) -> Sweep {
    let fam = Rc::new(sem::alias_family(tier.pick(2, 3)));
    let f2 = fam.clone();
    Sweep::new(
        "alias family (annotated and unannotated)",
        fam.len() as u64,
        move |idx| examine(&fam[idx as usize].1, which, tier),
        move |idx| f2[idx as usize].1.clone(),
    )
    .with_post_abort(|_, kind| AbortVerdict::Violation {
        sub: "abnormal-ending".to_owned(),
        input: String::new(),
        expected: "termination (alias groups are acyclic)".to_owned(),
        actual: kind.to_owned(),
    })
}

fn nested_sweep(which: Which, tier: Tier) -> Sweep {
    let fam = Rc::new(sem::nested_family());
    let f2 = fam.clone();
    Sweep::new(
        "nested-group family (recursion, forward references and mutual recursion through nested groups)",
        fam.len() as u64,
        move |idx| {
            count!("nested_family_programs");
            examine(&fam[idx as usize], which, tier)
        },
        move |idx| f2[idx as usize].clone(),
    )
    .with_post_abort(abort_verdict)
}

fn value_boundary_sweep(which: Which, tier: Tier) -> Sweep {
    let fam = Rc::new(sem::value_boundary_family(tier.pick(3, 3)));
    let f2 = fam.clone();
    Sweep::new(
        "value-boundary family (literals, almost-literals, computed terms, aliases and functions as members of one group)",
        fam.len() as u64,
        move |idx| {
            count!("value_boundary_programs");
            examine(&fam[idx as usize], which, tier)
        },
        move |idx| f2[idx as usize].clone(),
    )
    .with_post_abort(abort_verdict)
}

fn type_group_sweep(which: Which, tier: Tier) -> Sweep {
    let fam = Rc::new(sem::group_types_with(tier.pick(3, 3), true));
    let f2 = fam.clone();
    Sweep::new(
        "definition groups that denote types (aliases and function types into other members, in every order)",
        fam.len() as u64,
        move |idx| {
            count!("type_group_programs");
            examine(&fam[idx as usize], which, tier)
        },
        move |idx| f2[idx as usize].clone(),
    )
    .with_post_abort(abort_verdict)
}

fn late_hole_sweep(which: Which, tier: Tier) -> Sweep {
    let fam = Rc::new(sem::late_hole_family());
    let f2 = fam.clone();
    Sweep::new(
        "late-hole family (a parameter without annotation whose type is fixed under further binders and groups)",
        fam.len() as u64,
        move |idx| {
            count!("late_hole_programs");
            examine(&fam[idx as usize], which, tier)
        },
        move |idx| f2[idx as usize].clone(),
    )
    .with_post_abort(abort_verdict)
}

fn type_pair_sweep(which: Which, tier: Tier) -> Sweep {
    let fam = Rc::new(sem::type_pair_family(tier.pick(60, 140), tier));
    let f2 = fam.clone();
    Sweep::new(
        "type-pair family (two types meeting at an argument, at the branches of a conditional, at an annotated definition)",
        fam.len() as u64,
        move |idx| {
            count!("type_pair_programs");
            examine(&fam[idx as usize], which, tier)
        },
        move |idx| f2[idx as usize].clone(),
    )
    .with_post_abort(abort_verdict)
}

fn order_sweep(which: Which, tier: Tier, k: usize) -> Sweep {
    let fam = Rc::new(c13::Family::new(k));
    let f2 = fam.clone();
    Sweep::new(
        &format!("definition-order family, k = {k}"),
        fam.count(),
        move |idx| examine(&fam.program(idx), which, tier),
        move |idx| f2.program(idx),
    )
    .with_post_abort(abort_verdict)
}

pub fn recursion_programs() -> Vec<(String, String)> {
    let mut v = vec![];
    for n in 0..=10 {
        let mut f = 1u64;
        for i in 1..=n {
            f *= i;
        }
        v.push((format!("factorial : (int -> int) = x => if x == 0 then 1 else x * factorial (x - 1)\nfactorial {n}"), f.to_string()));
        let (mut a, mut b) = (0u64, 1u64);
        for _ in 0..n {
            (a, b) = (b, a + b);
        }
        v.push((format!("fib : (int -> int) = (n : int) => if n < 2 then n else fib (n - 1) + fib (n - 2); fib {n}"), a.to_string()));
        v.push((
            format!("even : (int -> bool) = (n : int) => if n == 0 then true else odd (n - 1); odd : (int -> bool) = (n : int) => if n == 0 then false else even (n - 1); even {n}"),
            (n % 2 == 0).to_string(),
        ));
        v.push((format!("sum : (int -> int -> int) = (n : int) => (acc : int) => if n == 0 then acc else sum (n - 1) (acc + n); sum {n} 0"), (n * (n + 1) / 2).to_string()));
        v.push((format!("twice : ((int -> int) -> int -> int) = (f : int -> int) => (x : int) => f (f x); twice ((y : int) => y * {n}) 3"), (3 * n * n).to_string()));
    }
    for (m, n, r) in [(0u32, 0u32, 1u32), (0, 3, 4), (1, 0, 2), (1, 2, 4), (2, 0, 3), (2, 1, 5), (2, 2, 7), (2, 3, 9)] {
        v.push((
            format!("ack : (int -> int -> int) = (m : int) => (n : int) => if m == 0 then n + 1 else if n == 0 then ack (m - 1) 1 else ack (m - 1) (ack m (n - 1)); ack {m} {n}"),
            r.to_string(),
        ));
    }
    // placeholder definitions: any subset of the members of a group of four is named `_` (never bound,
    // never referable); the body adds up the named ones, directly and through a function that refers
    // forward to the last named member
    for mask in 0u32..15 {
        for annotated in [false, true] {
            let values = [1u64, 10, 100, 1000];
            let mut defs = vec![];
            let mut named = vec![];
            for (i, v) in values.iter().enumerate() {
                let name = if mask & (1 << i) != 0 { "_".to_owned() } else { format!("m{i}") };
                if name != "_" {
                    named.push((name.clone(), *v));
                }
                defs.push(if annotated { format!("{name} : int = {v}") } else { format!("{name} = {v}") });
            }
            let sum: u64 = named.iter().map(|(_, v)| v).sum();
            let body = named.iter().map(|(n, _)| n.clone()).collect::<Vec<_>>().join(" + ");
            v.push((format!("{}; {body}", defs.join("; ")), sum.to_string()));
            let (last, lv) = named.last().unwrap().clone();
            v.push((format!("f : (int -> int) = (x : int) => x + {last}; {}; f 5 + {body}", defs.join("; ")), (5 + lv + sum).to_string()));
        }
    }
    // evaluation order probes: only one order avoids the division by zero / the loop
    v.push(("if true then 1 else 1 / 0".into(), "1".into()));
    v.push(("if false then 1 / 0 else 2".into(), "2".into()));
    v.push(("((x : int) => 1) (1 / 0)".into(), "division by zero".into()));
    v.push(("loop : (int -> int) = (n : int) => loop n; ((x : int) => (y : int) => 1) (1 / 0) (loop 1)".into(), "division by zero".into()));
    v.push(("loop : (int -> int) = (n : int) => loop n; (1 / 0) + loop 1".into(), "division by zero".into()));
    v.push(("loop : (int -> int) = (n : int) => loop n; if 1 < 2 then 7 else loop 1".into(), "7".into()));
    v.push(("x : int = 1 / 0; 3".into(), "division by zero".into()));
    v.push(("f : (int -> int) = (n : int) => 1 / n; x : int = 5; 2".into(), "2".into()));
    if let Ok(s) = std::fs::read_to_string(format!("{}/examples/factorial.g", crate::infra::repo_dir())) {
        v.push((s, "265252859812191058636308480000000".into()));
    }
    if let Ok(s) = std::fs::read_to_string(format!("{}/examples/identity.g", crate::infra::repo_dir())) {
        v.push((s, "3".into()));
    }
    v
}

// Programs with a known result: (text, expected result as the real evaluator prints it, or
// "division by zero").
fn known_result_sweep(name: &str, progs: Vec<(String, String)>, tier: Tier) -> Sweep {
    let progs = Rc::new(progs);
    let p2 = progs.clone();
    Sweep::new(
        name,
        progs.len() as u64,
        move |idx| {
            let (text, want) = &progs[idx as usize];
            count!("evaluations");
            count!("known_result_programs");
            sem::front_end(text, |f| match f {
                FrontEnd::Accepted(acc) => {
                    let r = sem::evaluator_graph(acc.elab_real, 2_000_000, |_, _, _| {
                        count!("states");
                        count!("transitions");
                    });
                    let got = match r.end {
                        RunEnd::Value => r.last.show(),
                        RunEnd::Stuck => match interp::run(&r.last, sem::INTERP_FUEL) {
                            Outcome::DivisionByZero => "division by zero".to_owned(),
                            o => format!("stuck: {}", o.describe()),
                        },
                        RunEnd::Horizon => "no result within the horizon".to_owned(),
                        RunEnd::Panic(m) => format!("panic: {m}"),
                    };
                    if got == *want {
                        count!("value_as_prescribed");
                        count!("traces_validated");
                        count!("nontrivial");
                    } else {
                        violation("wrong-value", text, want, &got);
                    }
                }
                FrontEnd::Rejected { messages, .. } => violation("known-good-program-rejected", text, &format!("accepted, result {want}"), &messages.join(" | ")),
                FrontEnd::Panic { message, .. } => violation("panic", text, want, &message),
            });
        },
        move |idx| p2[idx as usize].0.clone(),
    )
    .with_timeout(tier.pick(60, 300))
}

// Every sentence of the arithmetic / comparison sub-grammar over integer literals (all nine binary
// operators, negation, parentheses) up to a token bound, the literals given distinct values by
// position. The prescribed result is what the reference interpreter computes for the tree the grammar
// assigns (chains folded to the left); ill-typed sentences (a comparison as an operand) must be rejected.
fn expression_sentence_sweep(tier: Tier) -> Sweep {
    use crate::model::{grammar::Grammar, tok::{K, Tok}};
    let g = Grammar::load().restrict(
        &[K::IntegerLiteral, K::LeftParen, K::RightParen, K::Plus, K::Minus, K::Asterisk, K::Slash, K::LessThan, K::LessThanOrEqualTo, K::DoubleEquals, K::GreaterThan, K::GreaterThanOrEqualTo],
        &["let", "application", "non_dependent_pi"],
    );
    let sentences = Rc::new(RefCell::new(crate::enumerate::Sentences::new(g.clone(), 3, tier.pick(11, 12))));
    let total = sentences.borrow().total;
    let s2 = sentences.clone();
    let g2 = g.clone();
    const VALUES: [&str; 6] = ["10", "3", "2", "6", "7", "1"];
    let tokens_of = move |g: &Grammar, tree: &crate::model::grammar::Tree| -> Vec<Tok> {
        let mut n = 0;
        crate::enumerate::name_simple(g, tree)
            .into_iter()
            .map(|t| {
                if t.k == K::IntegerLiteral {
                    n += 1;
                    Tok::lit(VALUES[(n - 1) % VALUES.len()])
                } else {
                    t
                }
            })
            .collect()
    };
    Sweep::new(
        "arithmetic and comparison sentences over literals (every operator, precedence and association)",
        total,
        move |idx| {
            let tree = sentences.borrow_mut().tree(idx);
            let toks = tokens_of(&g, &tree);
            let text = crate::model::tok::layout(&toks).0;
            count!("evaluations");
            count!("expression_sentences");
            let want_tree = surface::reassoc(&surface::FromTree::new(&g, &toks).convert(&tree));
            let Ok(m) = surface::resolve(&want_tree, &[]) else {
                crate::infra::machinery(&format!("expression sentence does not resolve: {text}"));
                return;
            };
            // ill-typed sentences (a comparison used as an operand) are told by the reference checker, not
            // by the interpreter: a division by zero may come before the wrong operand is reached
            let well_typed = matches!(sem::reference_check(&m, None), RefVerdict::WellTyped);
            let want = match interp::run(&m, sem::INTERP_FUEL) {
                Outcome::Value(v) if well_typed => Some(v.describe()),
                Outcome::DivisionByZero if well_typed => Some("division by zero".to_owned()),
                _ => None,
            };
            sem::front_end(&text, |f| match f {
                FrontEnd::Accepted(acc) => {
                    let Some(want) = &want else {
                        violation("ill-typed-expression-accepted", &text, "rejected (the reference checker rejects it)", &acc.ty.show());
                        return;
                    };
                    let r = sem::evaluator_graph(acc.elab_real, 10_000, |_, _, _| {
                        count!("states");
                        count!("transitions");
                    });
                    let got = match r.end {
                        RunEnd::Value => r.last.show(),
                        RunEnd::Stuck => match interp::run(&r.last, sem::INTERP_FUEL) {
                            Outcome::DivisionByZero => "division by zero".to_owned(),
                            o => format!("stuck: {}", o.describe()),
                        },
                        RunEnd::Horizon => "no result within the horizon".to_owned(),
                        RunEnd::Panic(m) => format!("panic: {m}"),
                    };
                    if got == *want {
                        count!("value_as_prescribed");
                        count!("traces_validated");
                        count!("nontrivial");
                    } else {
                        violation("wrong-value", &text, &format!("{want} (the value of {})", m.show()), &got);
                    }
                }
                FrontEnd::Rejected { messages, .. } => {
                    if want.is_some() {
                        violation("known-good-program-rejected", &text, &format!("accepted, result {}", want.as_ref().unwrap()), &messages.join(" | "));
                    } else {
                        count!("ill_typed_expressions_rejected");
                    }
                }
                FrontEnd::Panic { message, .. } => violation("panic", &text, "a verdict", &message),
            });
        },
        move |idx| {
            let tree = s2.borrow_mut().tree(idx);
            crate::model::tok::layout(&crate::enumerate::name_simple(&g2, &tree)).0
        },
    )
}

pub fn boundary_integers() -> Vec<String> {
    let base = ["0", "1", "2", "3", "7", "2147483648", "9223372036854775807", "9223372036854775808", "18446744073709551616", "1000000000000000000000000000000"];
    let mut v: Vec<String> = base.iter().map(|s| (*s).to_owned()).collect();
    for b in &base[1..] {
        v.push(format!("-{b}"));
    }
    v
}

fn operand_programs() -> Vec<(String, String)> {
    use num_bigint::BigInt;
    let ints = boundary_integers();
    let parse = |s: &str| -> BigInt { s.parse().unwrap() };
    // two spellings of a negative literal
    let spell = |s: &str, style: usize| -> String {
        if let Some(m) = s.strip_prefix('-') {
            if style == 0 { format!("(-{m})") } else { format!("(0 - {m})") }
        } else {
            s.to_owned()
        }
    };
    let mut out = vec![];
    for (ai, a) in ints.iter().enumerate() {
        for (bi, b) in ints.iter().enumerate() {
            let (x, y) = (parse(a), parse(b));
            let style = (ai + bi) % 2;
            for op in Op::ALL {
                let want = match op {
                    Op::Add => (&x + &y).to_string(),
                    Op::Sub => (&x - &y).to_string(),
                    Op::Mul => (&x * &y).to_string(),
                    Op::Div => match interp::div_trunc(&x, &y) {
                        Some(q) => q.to_string(),
                        None => "division by zero".to_owned(),
                    },
                    Op::Lt => (x < y).to_string(),
                    Op::Le => (x <= y).to_string(),
                    Op::Eq => (x == y).to_string(),
                    Op::Gt => (x > y).to_string(),
                    Op::Ge => (x >= y).to_string(),
                };
                out.push((format!("{} {} {}", spell(a, style), op.text(), spell(b, style)), want.clone()));
                // operands that still have to be computed when the operator is reached: on the right
                // only, on the left only, on both sides (a rule that rebuilds the node after stepping
                // one operand has to rebuild the same operator)
                out.push((format!("{} {} ({} + 0)", spell(a, style), op.text(), spell(b, style)), want.clone()));
                out.push((format!("(1 * {}) {} {}", spell(a, style), op.text(), spell(b, style)), want.clone()));
                out.push((format!("(if true then {} else 0) {} ((n : int) => n) {}", spell(a, style), op.text(), spell(b, style)), want));
            }
        }
        out.push((format!("-{}", spell(a, 1)), (-parse(a)).to_string()));
    }
    out
}

// C06 (i) on the operand sweep: the normaliser computes what the evaluator computes, for every
// operator on every pair of boundary integers.
fn normalizer_operand_sweep() -> Sweep {
    let progs = Rc::new(operand_programs());
    let p2 = progs.clone();
    Sweep::new(
        "operand sweep through normalize_weak_head",
        progs.len() as u64,
        move |idx| {
            let (text, want) = &progs[idx as usize];
            count!("evaluations");
            sem::front_end(text, |f| match f {
                FrontEnd::Accepted(acc) => {
                    let mut dc = vec![];
                    match bind::guard(|| crate::normalizer::normalize_weak_head(acc.elab_real, &mut dc)) {
                        Err(m) => violation("normalize-panic", text, want, &m),
                        Ok(nf) => {
                            let nf = mirror(&nf);
                            let got = match &nf {
                                M::Lit(_) | M::True | M::False => nf.show(),
                                M::Bin(Op::Div, _, b) if matches!(**b, M::Lit(ref z) if *z == num_bigint::BigInt::from(0)) => "division by zero".to_owned(),
                                other => format!("not a literal: {}", other.show()),
                            };
                            if got == *want {
                                count!("normal_form_equals_value");
                                count!("traces_validated");
                                count!("nontrivial");
                            } else {
                                violation("normal-form-differs-from-value", text, want, &got);
                            }
                        }
                    }
                }
                FrontEnd::Rejected { messages, .. } => violation("operand-program-rejected", text, want, &messages.join(" | ")),
                FrontEnd::Panic { message, .. } => violation("panic", text, want, &message),
            });
        },
        move |idx| p2[idx as usize].0.clone(),
    )
}

pub fn sweeps_for(which: Which, tier: Tier) -> Vec<Sweep> {
    let mut v = vec![];
    match which {
        Which::C01 => {
            v.push(nested_sweep(which, tier));
            v.push(value_boundary_sweep(which, tier));
            v.push(typed_sweep(which, tier, true, true));
            v.push(small_sweep(which, tier));
            v.push(alias_sweep(which, tier));
            v.push(order_sweep(which, tier, 2));
            v.push(order_sweep(which, tier, 3));
            v.push(type_group_sweep(which, tier));
            v.push(late_hole_sweep(which, tier));
            v.push(type_pair_sweep(which, tier));
        }
        Which::C02 => {
            v.push(nested_sweep(which, tier));
            v.push(value_boundary_sweep(which, tier));
            v.push(known_result_sweep("operand sweep: every operator on every pair of boundary integers", operand_programs(), tier));
            v.push(known_result_sweep("recursion, evaluation-order probes, examples", recursion_programs(), tier));
            v.push(expression_sentence_sweep(tier));
            v.push(typed_sweep(which, tier, false, false));
            v.push(alias_sweep(which, tier));
            v.push(type_group_sweep(which, tier));
        }
        Which::C03 => {
            v.push(nested_sweep(which, tier));
            v.push(typed_sweep(which, tier, true, true));
            v.push(small_sweep(which, tier));
            v.push(alias_sweep(which, tier));
            v.push(type_pair_sweep(which, tier));
            v.push(late_hole_sweep(which, tier));
        }
        Which::C04 => {
            v.push(nested_sweep(which, tier));
            v.push(value_boundary_sweep(which, tier));
            v.push(typed_sweep(which, tier, true, true));
            v.push(alias_sweep(which, tier));
            v.push(small_sweep(which, tier));
            v.push(type_group_sweep(which, tier));
            v.push(type_pair_sweep(which, tier));
            v.push(late_hole_sweep(which, tier));
        }
        Which::C06 => {
            v.push(nested_sweep(which, tier));
            v.push(value_boundary_sweep(which, tier));
            v.push(normalizer_operand_sweep());
            v.push(typed_sweep(which, tier, false, false));
            v.push(alias_sweep(which, tier));
        }
    }
    v
}
