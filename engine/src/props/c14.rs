// C14 — gram handles every input without crashing and reports failure faithfully.
use crate::{
    bind::{self, Front},
    enumerate::{Sentences, Seqs, name_simple},
    infra::{AbortVerdict, EvidenceSpec, Prop, Sweep, Tier, violation},
    model::{
        grammar::Grammar,
        tok::{self, ALL28, K, Tok},
    },
    props::{c07, c09},
};
use serde_json::json;
use std::{
    cell::RefCell,
    io::Read,
    process::{Command, Stdio},
    rc::Rc,
    time::{Duration, Instant},
};

pub struct C14;

pub struct Launch {
    pub code: Option<i32>,
    pub stdout: Vec<u8>,
    pub stderr: Vec<u8>,
    pub timed_out: bool,
}

pub fn gram_bin() -> String {
    std::env::var("VERIF_GRAM_BIN").unwrap_or_else(|_| format!("{}/build/gram-target/release/gram", crate::infra::verif_dir()))
}

pub fn scratch_dir() -> String {
    let d = format!("{}/build/tmp/{}", crate::infra::verif_dir(), std::process::id());
    std::fs::create_dir_all(&d).ok();
    d
}

pub fn launch(args: &[&str], timeout: Duration) -> Launch {
    let mut child = Command::new(gram_bin())
        .args(args)
        .env("NO_COLOR", "1")
        .stdin(Stdio::null())
        .stdout(Stdio::piped())
        .stderr(Stdio::piped())
        .spawn()
        .unwrap_or_else(|e| crate::infra::machinery_exit(&format!("cannot launch gram binary {}: {e}", gram_bin())));
    let mut so = child.stdout.take().unwrap();
    let mut se = child.stderr.take().unwrap();
    let t1 = std::thread::spawn(move || {
        let mut v = vec![];
        so.read_to_end(&mut v).ok();
        v
    });
    let t2 = std::thread::spawn(move || {
        let mut v = vec![];
        se.read_to_end(&mut v).ok();
        v
    });
    let start = Instant::now();
    let mut timed_out = false;
    let code = loop {
        match child.try_wait() {
            Ok(Some(st)) => break st.code(),
            Ok(None) => {
                if start.elapsed() > timeout {
                    child.kill().ok();
                    child.wait().ok();
                    timed_out = true;
                    break None;
                }
                std::thread::sleep(Duration::from_micros(300));
            }
            Err(_) => break None,
        }
    };
    Launch { code, stdout: t1.join().unwrap_or_default(), stderr: t2.join().unwrap_or_default(), timed_out }
}

// The in-process verdict for a source text: Ok(true) accepted, Ok(false) rejected with >= 1 error,
// Err(..) a violation description. `upto` as in bind::with_front.
pub fn library_verdict(text: &str, upto: u8) -> Result<bool, (String, String)> {
    bind::with_front(text, &[], upto, |f| match f {
        Front::Panic { stage, message } => Err((format!("{stage}-panic"), format!("panic: {message}"))),
        Front::TokenizeErr(e) => {
            if e.is_empty() { Err(("empty-error-list".into(), "tokenize returned Err(vec![])".into())) } else { Ok(false) }
        }
        Front::ParseErr { errors, .. } => {
            if upto < 2 {
                Ok(true)
            } else if errors.is_empty() {
                Err(("empty-error-list".into(), "parse returned Err(vec![])".into()))
            } else {
                Ok(false)
            }
        }
        Front::TypeErr { errors, .. } => {
            if upto < 3 {
                Ok(true)
            } else if errors.is_empty() {
                Err(("empty-error-list".into(), "type_check returned Err(vec![])".into()))
            } else {
                Ok(false)
            }
        }
        Front::Ok { elab, ty, .. } => {
            if upto >= 3 {
                // `gram check` prints the elaborated term and its type: rendering them is a stage too
                // (a hole solved by a term that contains it makes the printer recurse for ever)
                if let Err(m) = bind::guard(|| (elab.to_string().len(), ty.to_string().len())) {
                    return Err(("display-panic".into(), format!("panic while printing the result: {m}")));
                }
            }
            Ok(true)
        }
    })
}

fn text_case(text: &str) {
    count!("evaluations");
    match library_verdict(text, 2) {
        Ok(true) => {
            count!("lib_accepted");
            count!("nontrivial");
        }
        Ok(false) => {
            count!("lib_rejected");
        }
        Err((sub, what)) => violation(&sub, text, "Ok(..) or Err(non-empty errors), no panic", &what),
    }
}

// Diagnostics about compound operands: every operand shape (applications with parenthesised
// arguments in every position, operator chains with grouped operands, negations, conditionals, groups)
// in every context that rejects an integer there, so that a diagnostic quoting the operand has to be
// rendered from its recorded range. Oracle of C14: a non-empty error list, no panic.
fn diagnosed_operand_sweep() -> Sweep {
    const OPERANDS: [&str; 26] = [
        "f 1 2", "f 1 (2)", "f (1) 2", "f (1) (2)", "f 1 (g 2)", "(f 1) 2", "(f 1) (2)", "g (1)", "g 1", "f (g 1) (g 2)", "1 + 2", "1 + (2)", "(1) + 2", "1 + (2) + (3)",
        "1 * (2)", "1 * (2) * (3)", "1 - (2) - (3)", "1 / (2) / (3)", "-(1)", "-g 1", "(g 1) + (g 2)", "g 1 + g (2)", "if true then 1 else (2)", "(q : int = 1; q)",
        "g (if true then 1 else 2)", "f 1 (q : int = 1; q)",
    ];
    const CONTEXTS: [&str; 8] = ["if @ then 1 else 2", "b : bool = @; 1", "k (@)", "(x : @) => x", "(@) < true", "if true then @ else true", "(y : int -> int) => y (k (@))", "@ -> int"];
    const PREFIXES: [&str; 3] = [
        "f : (int -> int -> int) = (a : int) => (b : int) => a + b; g : (int -> int) = (a : int) => a; k : (bool -> int) = (b : bool) => 1; ",
        "f : (int -> int -> int) = (a : int) => (b : int) => a + b\ng : (int -> int) = (a : int) => a\nk : (bool -> int) = (b : bool) => 1\n",
        "f : (int -> int -> int) = (a : int) => (b : int) => a + b; g : (int -> int) = (a : int) => a; k : (bool -> int) = (b : bool) => 1; é = 1; ",
    ];
    Sweep::new(
        "diagnostics about compound operands (every operand shape in every rejecting context)",
        (OPERANDS.len() * CONTEXTS.len() * PREFIXES.len()) as u64,
        |idx| {
            let i = idx as usize;
            let text = format!("{}{}", PREFIXES[i % 3], CONTEXTS[(i / 3) % 8].replace('@', OPERANDS[i / 24]));
            count!("evaluations");
            count!("diagnosed_operands");
            match library_verdict(&text, 3) {
                Ok(true) => count!("diagnosed_operand_accepted"),
                Ok(false) => {
                    count!("lib_rejected");
                    count!("nontrivial");
                }
                Err((sub, what)) => violation(&sub, &text, "Err(non-empty errors), no panic", &what),
            }
        },
        |idx| {
            let i = idx as usize;
            format!("{}{}", PREFIXES[i % 3], CONTEXTS[(i / 3) % 8].replace('@', OPERANDS[i / 24]))
        },
    )
}

// Arithmetic inside types: two indexes of an opaque type family have to be compared, so the checker
// normalises closed arithmetic that a program would never run — divisions by zero included.
fn type_level_arithmetic_sweep() -> Sweep {
    const INDEXES: [&str; 16] = [
        "1 / 0", "10 / 0", "0 / 0", "(0 - 1) / 0", "1 / (1 - 1)", "-(1 / 0)", "1 / 0 + 1", "if 1 / 0 == 1 then 1 else 2", "7 / 2", "(0 - 7) / 2", "1 + 2", "2 * 3", "3", "1 - 2",
        "100000000000000000000 * 100000000000000000000", "(n : int = 1 / 0; 3)",
    ];
    Sweep::new(
        "type-level arithmetic (indexes of an opaque type family, divisions by zero included)",
        (INDEXES.len() * INDEXES.len() * 2) as u64,
        |idx| {
            let i = idx as usize;
            let (a, b) = (INDEXES[(i / 2) % 16], INDEXES[i / 32]);
            let text = if i % 2 == 0 {
                format!("(bucket : int -> type) => (k : bucket ({a})) => (j : bucket ({b})) => if true then k else j")
            } else {
                format!("(bucket : int -> type) => (mk : (z : int) -> bucket ({a})) => (w : bucket ({b}) = mk 0; 1)")
            };
            count!("evaluations");
            count!("type_level_arithmetic_programs");
            match library_verdict(&text, 3) {
                Ok(true) => {
                    count!("lib_accepted");
                    count!("nontrivial");
                }
                Ok(false) => {
                    count!("lib_rejected");
                    count!("nontrivial");
                }
                Err((sub, what)) => violation(&sub, &text, "Ok(..) or Err(non-empty errors), no panic", &what),
            }
        },
        |idx| format!("type-level arithmetic case {idx}"),
    )
}

// Binders whose annotation is a type only after unfolding definitions (universe aliases,
// universe-valued functions), and function types whose codomain's kind has to be computed: the checker
// normalises kinds under the contexts it has built so far.
fn computed_kind_sweep() -> Sweep {
    let mut fam = crate::props::c18::computed_annotation_family();
    for p in [
        "kind = type; number : kind = int; f : (number -> number) = (n : number) => n; f 3",
        "kind : type = type; number : kind = int; (f : number -> number) => f",
        "(a : type) -> (x : a) -> x",
        "(a : type) => (x : a) -> x",
        "kind = type; (a : kind) -> (x : a) -> a",
        "k : (int -> type) = (n : int) => type; t : k 1 = int; (f : t -> t) => f",
    ] {
        fam.push(p.to_owned());
    }
    let fam = Rc::new(fam);
    let f2 = fam.clone();
    Sweep::new(
        "computed kinds (annotations and codomains that are types only after unfolding)",
        fam.len() as u64,
        move |idx| {
            count!("evaluations");
            count!("computed_kind_programs");
            match library_verdict(&fam[idx as usize], 3) {
                Ok(_) => count!("nontrivial"),
                Err((sub, what)) => violation(&sub, &fam[idx as usize], "Ok(..) or Err(non-empty errors), no panic", &what),
            }
        },
        move |idx| f2[idx as usize].clone(),
    )
}

// Definitions that contain holes, used by name: `t = H` for every type H over { _, int, t-free arrows }
// with at least one `_`, (optionally an alias `u = t` before or after it), and bodies in which binders
// annotated with the name are applied to each other, to themselves and to functions over the name — so
// that holes are solved with terms that mention the definition which contains them. The late-hole and
// value-boundary families (parameters and definitions without annotations) go through the same stages.
// Oracle of C14: every stage returns, printing the result included; none of these programs computes.
fn holed_definition_sweep() -> Sweep {
    let holes = ["_", "_ -> int", "int -> _", "_ -> _", "(_ -> int) -> int", "(x : _) -> _", "int -> int"];
    let groups = ["t = @", "t = @; u = t", "u = t; t = @", "t : type = @", "a = int; t = @"];
    let bodies = [
        "(w : t) => w w",
        "(w : t) => w 1",
        "(w : t) => (v : t) => w v",
        "(f : t -> int) => (w : t) => w f",
        "(f : t -> int) => (w : t) => f w",
        "(w : u) => w w",
        "(w : t) => (v : u) => v w",
        "(w : t) => (k : t -> t) => k w (k w)",
        "(w : t) => if true then w else w w",
        "(w : t) => (z : t = w w; z)",
        "(x : t) => x",
        "w : t = (x => x); w w",
    ];
    let mut fam: Vec<String> = vec![];
    for g in groups {
        for h in holes {
            for b in bodies {
                if b.contains('u') && !g.contains("u =") {
                    continue;
                }
                fam.push(format!("{}; {b}", g.replace('@', h)));
                fam.push(format!("{}\n{b}", g.replace('@', h).replace("; ", "\n")));
            }
        }
    }
    // a hole inside one branch of a conditional type that is stuck on a parameter, met by the hole itself
    for (i, t) in ["if b then int else w _ v", "if b then w _ v else int", "if b then int else (if b then int else w _ v)", "w _ v -> int", "w (w _ v) v"].iter().enumerate() {
        for dom in ["@ -> int", "int -> @", "@"] {
            let ty = dom.replace('@', &format!("({t})"));
            fam.push(format!("(b : bool) => (w : (t : type) -> t -> type) => (r = g v; g : ({ty}) = z => 0; v : _ = 5; r)"));
            fam.push(format!("(b : bool) => (w : (t : type) -> t -> type) => (g : ({ty}) = z => 0; v : _ = 5; g v)"));
            if i == 0 {
                fam.push(format!("(b : bool) =>
(w : (t : type) -> t -> type) =>
  r = g v
  g : ({ty}) = z => 0
  v : _ = 5
  r"));
            }
        }
    }
    fam.extend(crate::props::sem::late_hole_family());
    fam.extend(crate::props::sem::value_boundary_family(2));
    let fam = Rc::new(fam);
    let f2 = fam.clone();
    Sweep::new(
        "definitions that contain holes and are used by name; parameters and definitions without annotations",
        fam.len() as u64,
        move |idx| {
            count!("evaluations");
            count!("holed_definition_programs");
            match library_verdict(&fam[idx as usize], 3) {
                Ok(true) => {
                    count!("lib_accepted");
                    count!("nontrivial");
                }
                Ok(false) => {
                    count!("lib_rejected");
                    count!("nontrivial");
                }
                Err((sub, what)) => violation(&sub, &fam[idx as usize], "Ok(..) or Err(non-empty errors), no panic", &what),
            }
        },
        move |idx| f2[idx as usize].clone(),
    )
}

fn strings_sweep(name: &str, alpha: Vec<&'static str>, min: usize, max: usize) -> Sweep {
    let seqs = Seqs::with_min(alpha.len(), min, max);
    let s2 = seqs.clone();
    let alpha = Rc::new(alpha);
    let a2 = alpha.clone();
    let mut buf = vec![];
    Sweep::new(
        name,
        seqs.count(),
        move |idx| {
            seqs.unrank(idx, &mut buf);
            let text = c09::concat(&alpha, &buf);
            text_case(&text);
        },
        move |idx| {
            let mut b = vec![];
            s2.unrank(idx, &mut b);
            format!("{:?}", c09::concat(&a2, &b))
        },
    )
}

fn token_case(toks: &[Tok]) {
    count!("evaluations");
    let (src, ranges) = tok::layout(toks);
    let real = tok::real_tokens(&src, toks, &ranges);
    // every identifier is spelled `x`; binders of the sequence itself make some of them bound
    bind::with_tokens(&src, &real, &[], 2, |f| match f {
        Front::Panic { stage, message } => violation(&format!("{stage}-panic"), &src, "no panic", &format!("panic: {message}")),
        Front::ParseErr { errors, .. } => {
            if errors.is_empty() {
                violation("empty-error-list", &src, "Err(non-empty)", "parse returned Err(vec![])");
            } else {
                count!("lib_rejected");
                if errors.iter().all(|e| c07::is_scoping_message(&e.message)) {
                    count!("nontrivial");
                }
            }
        }
        Front::TypeErr { term, .. } | Front::Ok { term, .. } => {
            count!("lib_accepted");
            count!("nontrivial");
            // The parser accepted it: push it through the type checker as well, unless the reference
            // finds a piece whose normalisation does not terminate (divergence written in the program).
            let m = crate::model::mterm::mirror(term);
            if crate::props::sem::has_divergent_piece(&m) {
                count!("skipped_divergent");
                return;
            }
            // SAFETY: as in bind::with_tokens — the text outlives this call
            let src_a: &str = unsafe { std::mem::transmute::<&str, &str>(src.as_str()) };
            let term_a: &crate::term::Term = unsafe { std::mem::transmute::<&crate::term::Term, &crate::term::Term>(term) };
            let r = bind::guard(|| {
                let (mut tc, mut dc) = (vec![], vec![]);
                let r = crate::type_checker::type_check(None, src_a, term_a, &mut tc, &mut dc);
                (r.map(|_| ()).map_err(|e| e.len()), tc.len(), dc.len())
            });
            match r {
                Err(m) => violation("type_check-panic", &src, "no panic", &format!("panic: {m}")),
                Ok((Err(0), _, _)) => violation("empty-error-list", &src, "Err(non-empty)", "type_check returned Err(vec![])"),
                Ok((_, t, d)) if t != 0 || d != 0 => violation("contexts-not-restored", &src, "empty contexts after type_check", &format!("{t} / {d} entries")),
                Ok((Ok(()), _, _)) => count!("type_checked_ok"),
                Ok((Err(_), _, _)) => count!("type_checked_rejected"),
            }
        }
        Front::TokenizeErr(_) => {}
    });
}

fn sym(alpha: &[K], i: usize) -> K {
    alpha[i]
}

fn alphabet29() -> Vec<K> {
    let mut v = ALL28.to_vec();
    v.push(K::LineBreak);
    v
}

fn alphabet_reduced() -> Vec<K> {
    let mut v = c07::class_alphabet();
    v.push(K::LineBreak);
    v
}

fn tokens_sweep(name: &str, alpha: Vec<K>, min: usize, max: usize) -> Sweep {
    let seqs = Seqs::with_min(alpha.len(), min, max);
    let s2 = seqs.clone();
    let alpha = Rc::new(alpha);
    let a2 = alpha.clone();
    let mut buf = vec![];
    Sweep::new(
        name,
        seqs.count(),
        move |idx| {
            seqs.unrank(idx, &mut buf);
            let toks: Vec<Tok> = buf.iter().map(|i| Tok::new(alpha[*i])).collect();
            token_case(&toks);
        },
        move |idx| {
            let mut b = vec![];
            s2.unrank(idx, &mut b);
            let toks: Vec<Tok> = b.iter().map(|i| Tok::new(a2[*i])).collect();
            tok::layout(&toks).0
        },
    )
}

// Sentences with every single-token deletion, insertion and substitution.
fn edits_sweep(max_len: usize) -> Sweep {
    edits_sweep_over("class alphabet", Grammar::load().restrict(&c07::class_alphabet(), &[]), 1, max_len)
}

// The same over a sub-grammar slice, which reaches longer sentences (binders with compound
// annotations, definition groups, conditionals): an edit inside a nested construct leaves the parser
// with a recovered error deep in an otherwise complete tree.
fn edits_sweep_over(what: &str, g: Grammar, min_len: usize, max_len: usize) -> Sweep {
    let sentences = Rc::new(RefCell::new(Sentences::new(g.clone(), min_len, max_len)));
    let total = sentences.borrow().total;
    let s2 = sentences.clone();
    let g2 = g.clone();
    let kinds = alphabet29();
    Sweep::new(
        &format!("sentences of {min_len}..{max_len} tokens ({what}) with single-token edits"),
        total,
        move |idx| {
            let tree = sentences.borrow_mut().tree(idx);
            let toks = name_simple(&g, &tree);
            count!("edited_sentences");
            let n = toks.len();
            for p in 0..n {
                let mut d = toks.clone();
                d.remove(p);
                token_case(&d);
                for k in &kinds {
                    if *k != toks[p].k {
                        let mut s = toks.clone();
                        s[p] = Tok::new(*k);
                        token_case(&s);
                    }
                }
            }
            for p in 0..=n {
                for k in &kinds {
                    let mut s = toks.clone();
                    s.insert(p, Tok::new(*k));
                    token_case(&s);
                }
            }
        },
        move |idx| {
            let tree = s2.borrow_mut().tree(idx);
            format!("edits of: {}", tok::layout(&name_simple(&g2, &tree)).0)
        },
    )
}

// Process level: the real binary.
fn file_cases(tier: Tier) -> Vec<(String, Vec<u8>)> {
    let mut v: Vec<(String, Vec<u8>)> = vec![("empty".into(), vec![])];
    for b in 0..=255u8 {
        v.push((format!("byte-{b:02x}"), vec![b]));
    }
    // length 2 over a byte class alphabet (quick) / all 256 values (thorough)
    let class: Vec<u8> = match tier {
        Tier::Quick => vec![
            b'x', b'_', b'0', b' ', b'\n', b'\r', b'#', b'(', b')', b'=', b'>', b'-', b';', b'$', b'i', b'f', 0x00, 0x80, 0xc3, 0xa9, 0xe2, 0xf0,
            0xff, 0xcc, 0x81,
        ],
        Tier::Thorough => (0..=255u8).collect(),
    };
    for a in &class {
        for b in &class {
            v.push((format!("bytes-{a:02x}{b:02x}"), vec![*a, *b]));
        }
    }
    // accepted programs of several kinds (the printed result is compared with the in-process pipeline)
    for (i, p) in crate::props::sem::nested_family().into_iter().enumerate() {
        if i % 60 == 0 {
            v.push((format!("nested-family-{i}"), p.into_bytes()));
        }
    }
    for (i, (_, p, _)) in crate::props::sem::alias_family(2).into_iter().enumerate() {
        if i % 40 == 0 {
            v.push((format!("alias-family-{i}"), p.into_bytes()));
        }
    }
    for (i, p) in [
        "(p : int -> type) => (h : (y : int) -> p y) => (x : int) => h x",
        "(a : type) => (p : a -> type) => (x : a) => (h : (y : a) -> p y) => h x",
        "{a : type} => (x : a) => x",
        "f : (int -> int) = (x : int) => x * 2\ng : int = f 20 + 2\ng",
        "b : bool = 10 - 3 - 2 >= 6\nif b then 1 else 0",
        "x = y + 1; y = 2; x",
        // evaluation that stops on a division by zero: `gram check` accepts, `gram run` fails
        "1 / 0",
        "x = 5 / (3 - 3); x + 1",
        "f = (n : int) => 10 / n\nf 0",
        // diagnostics on several lines of a multi-line file, with non-ASCII text before them
        "é = 1\nb = é + u\nc = v\n\n# comment\nb + w",
        "x = 1 +\n  true\ny = if 1\n  then 2\n  else 3\nx $ y",
    ]
    .iter()
    .enumerate()
    {
        v.push((format!("program-{i}"), p.as_bytes().to_vec()));
    }
    // rejected programs with several diagnostics at once (lexical, scoping, type, definition order): what
    // the binary prints is compared with the diagnostics of the in-process pipeline
    let fam = crate::props::c13::DiagFamily::new();
    let step = tier.pick(151, 13);
    let mut i = 0;
    while i < fam.count() {
        v.push((format!("diag-family-{i}"), fam.program(i).into_bytes()));
        i += step;
    }
    // invalid UTF-8 mutations of the examples, and the examples themselves
    if let Ok(rd) = std::fs::read_dir(format!("{}/examples", crate::infra::repo_dir())) {
        let mut paths: Vec<_> = rd.filter_map(|e| e.ok()).map(|e| e.path()).collect();
        paths.sort();
        for p in paths {
            let Ok(bytes) = std::fs::read(&p) else { continue };
            let name = p.file_name().unwrap().to_string_lossy().to_string();
            v.push((format!("example-{name}"), bytes.clone()));
            let step = tier.pick(97, 7);
            let mut i = 0;
            while i < bytes.len() {
                for r in [0x80u8, 0xc3, 0xff] {
                    let mut m = bytes.clone();
                    m[i] = r;
                    v.push((format!("example-{name}-byte{i}-{r:02x}"), m));
                }
                i += step;
            }
        }
    }
    v
}

// For an accepted file: the standard output of `gram check` and `gram run` is what the in-process
// pipeline computes, in the format of main.rs. `run` is the launch of `gram run` on the same file.
fn printed_result(text: &str, check_stdout: &[u8], run: Option<&Launch>, shown: &str) {
    use crate::format::CodeStr;
    let expected = bind::with_front(text, &[], 3, |f| match f {
        Front::Ok { elab, ty, .. } => {
            let check = format!("Elaborated term:\n\n{}\n\nElaborated type:\n\n{}\n", elab.to_string().code_str(), ty.to_string().code_str());
            let (end, how, _) = bind::run_steps(elab, 200_000, |_, _| {});
            let run = match how {
                bind::RunEnd::Value => Some(Some(format!("{}\n", end.to_string().code_str()))),
                bind::RunEnd::Stuck => Some(None),
                _ => None,
            };
            Some((check, run))
        }
        _ => None,
    });
    let Some((check, expected_run)) = expected else { return };
    if check.as_bytes() != check_stdout {
        violation("cli-prints-another-result", shown, &format!("stdout of gram check = {check:?}"), &format!("{:?}", String::from_utf8_lossy(check_stdout)));
        return;
    }
    count!("cli_check_output_as_computed");
    let (Some(expected_run), Some(l)) = (expected_run, run) else { return };
    match expected_run {
        Some(value) => {
            if l.timed_out || l.code != Some(0) || l.stdout != value.as_bytes() || !l.stderr.is_empty() {
                violation("cli-prints-another-result", shown, &format!("gram run: exit 0, stdout {value:?}"), &format!("exit {:?}, stdout {:?}, stderr {:?}", l.code, String::from_utf8_lossy(&l.stdout), crate::infra::clip(&String::from_utf8_lossy(&l.stderr), 300)));
            } else {
                count!("cli_run_output_as_computed");
            }
        }
        None => {
            // the evaluator stops on a term that is not a value (division by zero, by C01): that is a failure
            if l.timed_out || l.code != Some(1) || !l.stdout.is_empty() || l.stderr.is_empty() {
                violation("cli-prints-another-result", shown, "gram run: exit 1, nothing on stdout, a message on stderr (evaluation stops on a non-value)", &format!("exit {:?}, stdout {:?}, stderr {:?}", l.code, String::from_utf8_lossy(&l.stdout), crate::infra::clip(&String::from_utf8_lossy(&l.stderr), 300)));
            } else {
                count!("cli_run_failure_as_computed");
            }
        }
    }
}

// The diagnostics of the in-process pipeline for a rejected text, rendered the way `error::throw` renders
// them when it is given the path of the file (`[Error] [`path`] message`), in the order of the error list.
fn library_diagnostics(text: &str, path: &str) -> Option<Vec<String>> {
    bind::with_front(text, &[], 3, |f| {
        let errors = match f {
            Front::TokenizeErr(e) => e,
            Front::ParseErr { errors, .. } => errors,
            Front::TypeErr { errors, .. } => errors,
            _ => return None,
        };
        Some(
            bind::messages(&errors)
                .into_iter()
                .map(|m| match m.strip_prefix("[Error] ") {
                    Some(rest) => format!("[Error] [`{path}`] {rest}"),
                    None => m,
                })
                .collect(),
        )
    })
}

fn cli_sweep(tier: Tier) -> Sweep {
    let cases = Rc::new(file_cases(tier));
    let c2 = cases.clone();
    Sweep::new(
        "gram check on byte strings (real binary)",
        cases.len() as u64 + 2,
        move |idx| {
            count!("evaluations");
            count!("launches");
            let dir = scratch_dir();
            let n = cases.len() as u64;
            let (name, path, bytes): (String, String, Option<&Vec<u8>>) = if idx == n {
                ("missing-file".into(), format!("{dir}/does-not-exist.g"), None)
            } else if idx == n + 1 {
                ("directory".into(), dir.clone(), None)
            } else {
                let (name, bytes) = &cases[idx as usize];
                let path = format!("{dir}/case.g");
                std::fs::write(&path, bytes).unwrap();
                (name.clone(), path, Some(bytes))
            };
            let l = launch(&["check", &path], Duration::from_secs(20));
            let shown = || match bytes {
                Some(b) if b.len() <= 64 => format!("{name}: {b:?}"),
                _ => name.clone(),
            };
            if l.timed_out {
                // Only the examples that are written to diverge may run out of time.
                if name.contains("girard") || name.contains("infinite") {
                    count!("cli_divergent_example");
                } else {
                    violation("cli-timeout", &shown(), "termination", "no exit within 20 s");
                }
                return;
            }
            let out_empty = l.stdout.is_empty();
            let err_text = String::from_utf8_lossy(&l.stderr).to_string();
            let ok = match l.code {
                Some(0) => !out_empty && l.stderr.is_empty(),
                Some(1) => out_empty && err_text.contains("[Error]"),
                _ => false,
            };
            if !ok {
                violation(
                    "cli-contract",
                    &shown(),
                    "exit 0 with stdout and empty stderr, or exit 1 with empty stdout and an [Error] diagnostic on stderr",
                    &format!("exit {:?}, stdout {} bytes, stderr {:?}", l.code, l.stdout.len(), crate::infra::clip(&err_text, 400)),
                );
                return;
            }
            count!("nontrivial");
            if l.code == Some(0) {
                count!("cli_accepted");
            } else {
                count!("cli_rejected");
            }
            // The two other spellings of the command: `gram run FILE` and `gram FILE` go through the same
            // front end, so a rejected file is rejected with the same diagnostics, and the two agree with
            // each other byte for byte.
            let diverges = name.contains("girard") || name.contains("infinite");
            // (thorough tier: of the 65 536 two-byte files every eighth is also given to the two other forms)
            let other_forms = tier == Tier::Quick || !name.starts_with("bytes-") || idx % 8 == 0;
            let run = if diverges || !other_forms { None } else { Some(launch(&["run", &path], Duration::from_secs(20))) };
            if let Some(r) = &run {
                count!("launches", 2);
                let b = launch(&[&path], Duration::from_secs(20));
                if !r.timed_out && !b.timed_out && (r.code != b.code || r.stdout != b.stdout || r.stderr != b.stderr) {
                    violation(
                        "cli-forms-disagree",
                        &shown(),
                        &format!("gram FILE behaves as gram run FILE: exit {:?}, stdout {:?}, stderr {:?}", r.code, String::from_utf8_lossy(&r.stdout), crate::infra::clip(&String::from_utf8_lossy(&r.stderr), 300)),
                        &format!("exit {:?}, stdout {:?}, stderr {:?}", b.code, String::from_utf8_lossy(&b.stdout), crate::infra::clip(&String::from_utf8_lossy(&b.stderr), 300)),
                    );
                    return;
                }
                if l.code == Some(1) {
                    if r.timed_out || r.code != Some(1) || !r.stdout.is_empty() || r.stderr != l.stderr {
                        violation(
                            "cli-forms-disagree",
                            &shown(),
                            &format!("gram run rejects the file as gram check does: exit 1, nothing on stdout, stderr {:?}", crate::infra::clip(&err_text, 300)),
                            &format!("exit {:?}, stdout {} bytes, stderr {:?}", r.code, r.stdout.len(), crate::infra::clip(&String::from_utf8_lossy(&r.stderr), 300)),
                        );
                        return;
                    }
                    count!("cli_run_rejects_alike");
                } else if !r.timed_out {
                    let ok = match r.code {
                        Some(0) => !r.stdout.is_empty() && r.stderr.is_empty(),
                        Some(1) => r.stdout.is_empty() && !r.stderr.is_empty(),
                        _ => false,
                    };
                    if !ok {
                        violation(
                            "cli-contract",
                            &shown(),
                            "gram run: exit 0 with stdout and empty stderr, or exit 1 with empty stdout and a message on stderr",
                            &format!("exit {:?}, stdout {} bytes, stderr {:?}", r.code, r.stdout.len(), crate::infra::clip(&String::from_utf8_lossy(&r.stderr), 400)),
                        );
                        return;
                    }
                }
            }
            // Agreement with the in-process pipeline (binds the engine's copy of the pipeline to main.rs).
            if let Some(b) = bytes
                && let Ok(text) = std::str::from_utf8(b)
                && !diverges
            {
                match library_verdict(text, 3) {
                    Ok(v) => {
                        if v != (l.code == Some(0)) {
                            violation("cli-vs-library", &shown(), &format!("library accepted = {v}"), &format!("gram check exit {:?}", l.code));
                        } else {
                            count!("cli_library_agreements");
                            if v {
                                // "exits 0 with the result on standard output": what is printed is the
                                // elaborated term and type (check) and the value (run) of the pipeline
                                printed_result(text, &l.stdout, run.as_ref(), &shown());
                            } else if let Some(diags) = library_diagnostics(text, &path) {
                                // "reports failure faithfully": every diagnostic of the pipeline is on
                                // standard error, whole and in order
                                let mut from = 0;
                                for d in &diags {
                                    // main.rs trims the joined text, so white space at the end of a
                                    // diagnostic (an overline of width zero) is not demanded
                                    let d = d.trim();
                                    match err_text[from..].find(d) {
                                        Some(at) => from += at + d.len(),
                                        None => {
                                            violation("cli-omits-diagnostic", &shown(), &format!("stderr contains, in order, the {} diagnostics of the pipeline; missing: {:?}", diags.len(), crate::infra::clip(d, 300)), &crate::infra::clip(&err_text, 600));
                                            return;
                                        }
                                    }
                                }
                                count!("cli_diagnostics_as_computed");
                                if diags.len() > 1 {
                                    count!("cli_several_diagnostics_as_computed");
                                }
                            }
                        }
                    }
                    Err((sub, what)) => violation(&sub, &shown(), "no panic", &what),
                }
            }
        },
        move |idx| c2.get(idx as usize).map_or_else(|| "missing file / directory".to_owned(), |(n, b)| format!("{n}: {:?}", crate::infra::clip(&String::from_utf8_lossy(b), 200))),
    )
    .with_timeout(60)
    .with_max_workers(2)
}

impl Prop for C14 {
    fn id(&self) -> &'static str {
        "C14"
    }
    fn sweeps(&self, tier: Tier) -> Vec<Sweep> {
        let mut v = vec![
            strings_sweep("strings over Σlex through tokenize+parse", c09::sigma_lex(), 0, tier.pick(3, 4)),
            strings_sweep("strings over Σlex-core through tokenize+parse", c09::sigma_lex_core(), 4, tier.pick(4, 5)),
            strings_sweep("strings over Σcluster through tokenize+parse", c09::sigma_cluster(), 1, tier.pick(4, 5)),
            tokens_sweep("token sequences over 29 symbols", alphabet29(), 0, tier.pick(4, 5)),
            tokens_sweep("token sequences over the class alphabet + line break", alphabet_reduced(), tier.pick(5, 6), tier.pick(5, 6)),
            edits_sweep(tier.pick(5, 7)),
        ];
        let g = Grammar::load();
        for (name, sg) in c07::slices(&g) {
            let (lo, hi) = match name {
                "binders" | "let-groups" | "let-in-binder-domain" => (6, tier.pick(9, 11)),
                "if-let" => (6, tier.pick(9, 10)),
                "mixed-arithmetic" | "applications" => (6, tier.pick(7, 8)),
                _ => continue,
            };
            v.push(edits_sweep_over(&format!("slice {name}"), sg, lo, hi));
        }
        v.push(diagnosed_operand_sweep());
        v.push(type_level_arithmetic_sweep());
        v.push(computed_kind_sweep());
        v.push(holed_definition_sweep());
        v.push(cli_sweep(tier));
        v
    }
    fn evidence(&self, tier: Tier) -> EvidenceSpec {
        EvidenceSpec {
            level: "exploration",
            rule: "in-process, in isolated workers with a 16 MiB stack: every string up to the C09 bounds through tokenize+parse (and type_check when they parse); every token sequence up to length 4/5 over all 29 token symbols (28 kinds + line-break terminator, so also streams tokenize never emits) and of length 5/6 over a 21-symbol class alphabet through parse; every sentence of grammar.y up to 5/7 tokens (class alphabet) with every single-token deletion, substitution (29 kinds) and insertion (29 kinds at every position), and the same edits of every sentence of six sub-grammar slices (binders, definition groups, groups in binder domains to 9/11 tokens, conditionals with groups to 9/10, arithmetic and applications to 7/8), where an edit leaves a recovered error deep inside an otherwise complete tree; 624 programs in which the checker has to quote a compound operand (26 operand shapes: applications with parenthesised arguments in every position, operator chains with grouped operands, negations, conditionals, groups; in 8 contexts that reject an integer there; 3 layouts); 512 programs in which two indexes of an opaque type family are closed arithmetic that the checker has to normalise (divisions by zero, truncating division of negatives, 40-digit products); 258 programs whose annotations and codomains are types only after unfolding definitions; definitions that contain holes and are used by name (t = H for seven H, five group layouts, twelve bodies, two layouts) together with the late-hole and value-boundary families. Each stage must return Ok or a non-empty error list, never panic, never abort, never exceed the watchdog; for an accepted program, printing the elaborated term and its type (as gram check does) is a stage too. Process level: the real `gram check` binary on every byte string of length <= 1, every pair over a byte class alphabet (quick) / all 65536 pairs (thorough), the examples and single-byte invalid-UTF-8 mutations of them, an empty file, a missing file and a directory: exit 0 with output and no stderr, or exit 1 with no output and an [Error] diagnostic; and the verdict must agree with the in-process pipeline; for accepted files (the examples, members of the alias and nested-group families, dependent-type programs) the standard output of `gram check` and of `gram run` must be, byte for byte, the elaborated term and type / the value that the in-process pipeline computes, in the format of main.rs (a program whose evaluation stops on a division by zero: exit 1, nothing on stdout, a message on stderr). Every file is also given to `gram run FILE` and `gram FILE`: the two must agree byte for byte, and a file that `gram check` rejects must be rejected by them with the same stderr; for a rejected file (a sample of the multi-diagnostic family of C13 included) every diagnostic of the in-process pipeline, rendered with the path as error::throw does, must be on stderr, whole and in order. non-trivial = inputs that reach name resolution or beyond, and launches that satisfied the contract".to_owned(),
            assumptions: vec![
                "token sequences that parse are also type checked in-process unless the reference finds a divergent piece in them (counted as skipped_divergent); an abnormal ending after that pre-screen is a violation".to_owned(),
                "NO_COLOR=1 (as the repository's CI)".to_owned(),
            ],
            evaluations: "evaluations",
            nontrivial: "nontrivial",
            states: None,
            transitions: None,
            traces: None,
            exhaustive: true,
            bounds: json!({"strings": "as C09", "token_sequences_29": tier.pick(4, 5), "token_sequences_class": tier.pick(5, 6), "edited_sentences_max_tokens": tier.pick(5, 7)}),
            minimums: vec![("lib_accepted", 1000), ("lib_rejected", 100_000), ("launches", 500), ("cli_accepted", 5), ("cli_rejected", 100), ("cli_library_agreements", 100), ("cli_check_output_as_computed", 30), ("cli_run_output_as_computed", 20)],
        }
    }
}
