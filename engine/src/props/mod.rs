use crate::infra::Prop;

pub mod c09;

pub fn all() -> Vec<&'static str> {
    vec!["C09"]
}

pub fn get(id: &str) -> Box<dyn Prop> {
    crate::bind::init();
    match id {
        "C09" => Box::new(c09::C09),
        _ => crate::infra::machinery_exit(&format!("unknown property {id}")),
    }
}

pub fn extra_command(_cmd: &str, _args: &[String]) -> bool {
    false
}
