use crate::infra::Prop;

pub mod c05;
pub mod c06;
pub mod c0x;
pub mod semrun;
pub mod c07;
pub mod sem;
pub mod c08;
pub mod c09;
pub mod c10;
pub mod c11;
pub mod c12;
pub mod c13;
pub mod c14;
pub mod c15;
pub mod c16;
pub mod c17;
pub mod c18;
pub mod c19;

pub fn all() -> Vec<&'static str> {
    vec!["C01", "C02", "C03", "C04", "C05", "C06", "C07", "C08", "C09", "C10", "C11", "C12", "C13", "C14", "C15", "C16", "C17", "C18", "C19"]
}

pub fn get(id: &str) -> Box<dyn Prop> {
    crate::bind::init();
    match id {
        "C01" => Box::new(c0x::Sem(semrun::Which::C01)),
        "C02" => Box::new(c0x::Sem(semrun::Which::C02)),
        "C03" => Box::new(c0x::Sem(semrun::Which::C03)),
        "C04" => Box::new(c0x::Sem(semrun::Which::C04)),
        "C06" => Box::new(c0x::Sem(semrun::Which::C06)),
        "C05" => Box::new(c05::C05),
        "C07" => Box::new(c07::C07),
        "C08" => Box::new(c08::C08),
        "C09" => Box::new(c09::C09),
        "C10" => Box::new(c10::C10),
        "C11" => Box::new(c11::C11),
        "C12" => Box::new(c12::C12),
        "C13" => Box::new(c13::C13),
        "C14" => Box::new(c14::C14),
        "C15" => Box::new(c15::C15),
        "C16" => Box::new(c16::C16),
        "C17" => Box::new(c17::C17),
        "C18" => Box::new(c18::C18),
        "C19" => Box::new(c19::C19),
        _ => crate::infra::machinery_exit(&format!("unknown property {id}")),
    }
}

pub fn extra_command(cmd: &str, args: &[String]) -> bool {
    match cmd {
        "count-typed" => {
            let max: usize = args.first().and_then(|a| a.parse().ok()).unwrap_or(6);
            let mut g = crate::enumerate::typed::Gen::new(crate::enumerate::typed::Config::standard());
            for n in 1..=max {
                let t = std::time::Instant::now();
                let mut total = 0;
                for goal in crate::enumerate::typed::goals() {
                    let c = g.terms(&vec![], &goal, n).len();
                    total += c;
                    print!("{}:{} ", goal.show(), c);
                }
                println!("\nsize {n}: {total} programs ({:.2}s)", t.elapsed().as_secs_f64());
            }
            true
        }
        "roundtrip" => {
            // debugging aid: parse a text with the real parser, print it, read it back
            let text = args.join(" ");
            crate::bind::with_front(&text, &[], 2, |f| match f {
                crate::bind::Front::TypeErr { term, .. } | crate::bind::Front::Ok { term, .. } => {
                    println!("parsed:  {}", crate::model::mterm::mirror(term).show());
                    println!("printed: {term}");
                    println!("round trip ok: {}", crate::props::c16::round_trip(&text, term, &[]));
                }
                other => println!("not parsed: {}", other.stage_name()),
            });
            true
        }
        "count-slices" => {
            let g = crate::model::grammar::Grammar::load();
            let max: usize = args.first().and_then(|a| a.parse().ok()).unwrap_or(13);
            for (name, sg) in crate::props::c07::slices(&g) {
                let start = sg.start;
                let mut en = crate::model::grammar::Enumerator::new(sg);
                let counts: Vec<u64> = (1..=max).map(|l| en.count(start, l)).collect();
                println!("{name}: {counts:?}");
            }
            true
        }
        _ => false,
    }
}
