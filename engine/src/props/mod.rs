use crate::infra::Prop;

pub mod c07;
pub mod c08;
pub mod c09;
pub mod c10;
pub mod c11;
pub mod c13;
pub mod c14;
pub mod c15;
pub mod c16;
pub mod c17;

pub fn all() -> Vec<&'static str> {
    vec!["C07", "C08", "C09", "C10", "C11", "C13", "C14", "C15", "C16", "C17"]
}

pub fn get(id: &str) -> Box<dyn Prop> {
    crate::bind::init();
    match id {
        "C07" => Box::new(c07::C07),
        "C08" => Box::new(c08::C08),
        "C09" => Box::new(c09::C09),
        "C10" => Box::new(c10::C10),
        "C11" => Box::new(c11::C11),
        "C13" => Box::new(c13::C13),
        "C14" => Box::new(c14::C14),
        "C15" => Box::new(c15::C15),
        "C16" => Box::new(c16::C16),
        "C17" => Box::new(c17::C17),
        _ => crate::infra::machinery_exit(&format!("unknown property {id}")),
    }
}

pub fn extra_command(_cmd: &str, _args: &[String]) -> bool {
    false
}
