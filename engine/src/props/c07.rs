// C07 — the parser accepts exactly grammar.y and builds the tree it specifies.
use crate::{
    bind::{self, Front},
    enumerate::{Sentences, Seqs, name_simple},
    infra::{EvidenceSpec, Prop, Sweep, Tier, violation},
    model::{
        grammar::{Grammar, Recognizer, Tree},
        mterm::{M, mirror},
        surface::{self, FromTree},
        tok::{self, ALL28, K, Tok},
    },
};
use serde_json::json;
use std::{cell::RefCell, collections::HashMap, rc::Rc};

pub struct C07;

const SYMS29: usize = 29;

fn sym29(i: usize) -> K {
    if i < 28 { ALL28[i] } else { K::LineBreak }
}

fn pack(ks: &[K]) -> u64 {
    let mut v: u64 = ks.len() as u64;
    for k in ks {
        let k = if *k == K::LineBreak { K::Semicolon } else { *k };
        v = (v << 5) | (k as u64);
    }
    v
}

pub fn is_scoping_message(m: &str) -> bool {
    m.contains("not in scope") || m.contains("already exists") || m.contains("will not be available in time")
}

// Does the real parser accept this token sequence as far as the grammar is concerned (i.e. Ok, or
// only scoping / definition-order diagnostics)? Err(message) on a panic.
pub fn real_accepts(toks: &[Tok], context: &[&str]) -> Result<(bool, Vec<String>), String> {
    let (src, ranges) = tok::layout(toks);
    let real = tok::real_tokens(&src, toks, &ranges);
    bind::with_tokens(&src, &real, context, 2, |f| match f {
        Front::Panic { message, .. } => Err(message),
        Front::ParseErr { errors, .. } => {
            let msgs = bind::messages(&errors);
            Ok((!msgs.is_empty() && msgs.iter().all(|m| is_scoping_message(m)), msgs))
        }
        _ => Ok((true, vec![])),
    })
}

// (A) accept / reject on every token sequence, (C) unambiguity of the grammar.
fn accept_sweep(alphabet: Vec<K>, min_len: usize, max_len: usize) -> Sweep {
    let g = Grammar::load();
    // The set of sentences up to max_len, with the index of their derivation.
    let mut sentences = Sentences::new(g.clone(), 0, max_len);
    let mut set: HashMap<u64, u64> = HashMap::with_capacity(sentences.total as usize);
    let mut ambiguous: Vec<Vec<K>> = vec![];
    for i in 0..sentences.total {
        let ks = sentences.tree(i).tokens();
        if set.insert(pack(&ks), i).is_some() && ambiguous.len() < 5 {
            ambiguous.push(ks);
        }
    }
    let sentences = Rc::new(RefCell::new(sentences));
    let set = Rc::new(set);
    let seqs = Seqs::with_min(alphabet.len(), min_len, max_len);
    let s2 = seqs.clone();
    let g2 = g.clone();
    let alphabet = Rc::new(alphabet);
    let alphabet2 = alphabet.clone();
    let nsyms = alphabet.len();
    let mut buf = vec![];
    let mut reported_ambiguity = false;
    Sweep::new(
        &format!("all token sequences of length {min_len}..{max_len} over {nsyms} symbols"),
        seqs.count(),
        move |idx| {
            if idx == seqs.count() - 1 || idx == 0 {
                crate::infra::max_named("max.grammar_sentences", set.len() as u64);
                if !ambiguous.is_empty() && !reported_ambiguity {
                    reported_ambiguity = true;
                    violation("grammar-ambiguous", &format!("{:?}", ambiguous[0]), "at most one derivation per sentence", "two derivations");
                }
            }
            seqs.unrank(idx, &mut buf);
            let ks: Vec<K> = buf.iter().map(|i| alphabet[*i]).collect();
            count!("evaluations");
            let key = pack(&ks);
            let sentence = set.get(&key).copied();
            // Name the identifiers: sentences through their derivation (well scoped), others arbitrarily.
            let toks: Vec<Tok> = match sentence {
                Some(si) => {
                    let tree = sentences.borrow_mut().tree(si);
                    let mut t = name_simple(&g, &tree);
                    for (t, k) in t.iter_mut().zip(&ks) {
                        if *k == K::LineBreak {
                            *t = Tok::new(K::LineBreak);
                        }
                    }
                    t
                }
                None => ks.iter().map(|k| Tok::new(*k)).collect(),
            };
            let ctx: &[&str] = if sentence.is_some() { &["u"] } else { &["x"] };
            match real_accepts(&toks, ctx) {
                Err(m) => violation("parse-panic", &tok::layout(&toks).0, "Ok or Err(errors)", &format!("panic: {m}")),
                Ok((acc, msgs)) => {
                    crate::infra::digest(0, key, acc as u64);
                    match (sentence.is_some(), acc) {
                        (true, true) => {
                            count!("accepted_sentences");
                            count!("nontrivial");
                            if !msgs.is_empty() {
                                // a well-scoped naming of a sentence must parse without any diagnostic
                                violation("sentence-diagnosed", &tok::layout(&toks).0, "Ok", &msgs.join(" | "));
                            }
                        }
                        (false, false) => {
                            count!("rejected_nonsentences");
                            // non-trivial rejections: one token away from the grammar is not measured here
                        }
                        (true, false) => violation("sentence-rejected", &tok::layout(&toks).0, "accepted (it is a sentence of grammar.y)", &msgs.join(" | ")),
                        (false, true) => violation(
                            "nonsentence-accepted",
                            &tok::layout(&toks).0,
                            "rejected with a syntax error (not a sentence of grammar.y)",
                            &if msgs.is_empty() { "Ok".to_owned() } else { msgs.join(" | ") },
                        ),
                    }
                }
            }
            // Cross-examination of the oracle itself: the span recogniser (a second algorithm over the
            // same rules) must agree with the enumerated sentence set. Sampled every 97th case to
            // bound the cost; a disagreement is a machinery error, not a verdict.
            if idx % 97 == 0 {
                let n = Recognizer::new(&g, &ks).parses().len();
                if (n > 0) != sentence.is_some() {
                    crate::infra::machinery(&format!("oracle self-check: recogniser finds {n} derivations, enumerator says sentence={}: {ks:?}", sentence.is_some()));
                }
                if n > 1 {
                    violation("grammar-ambiguous", &format!("{ks:?}"), "at most one derivation", &format!("{n} derivations"));
                }
                count!("oracle_self_checks");
            }
        },
        move |idx| {
            let mut b = vec![];
            s2.unrank(idx, &mut b);
            let toks: Vec<Tok> = b.iter().map(|i| Tok::new(alphabet2[*i])).collect();
            tok::layout(&toks).0
        },
    )
}

// (A') accept / reject one token away from longer sentences: every single-token deletion,
// substitution and insertion applied to every sentence of a sub-grammar slice; membership of the
// edited sequence is decided by the span recogniser over the full grammar. This reaches non-sentences
// whose defect lies deep inside an otherwise complete tree (a stray token in a binder's domain).
fn edited_sweep(what: &str, slice: Grammar, min_len: usize, max_len: usize) -> Sweep {
    let full = Grammar::load();
    let sentences = Rc::new(RefCell::new(Sentences::new(slice.clone(), min_len, max_len)));
    let total = sentences.borrow().total;
    let s2 = sentences.clone();
    let slice2 = slice.clone();
    let kinds: Vec<K> = (0..SYMS29).map(sym29).filter(|k| *k != K::LineBreak).collect();
    Sweep::new(
        &format!("single-token edits of sentences of {min_len}..{max_len} tokens ({what})"),
        total,
        move |idx| {
            let tree = sentences.borrow_mut().tree(idx);
            let toks = name_simple(&slice, &tree);
            count!("evaluations");
            count!("edited_sentences");
            let n = toks.len();
            let mut judge = |edited: Vec<Tok>| {
                let ks: Vec<K> = edited.iter().map(|t| t.k).collect();
                let is_sentence = !Recognizer::new(&full, &ks).parses().is_empty();
                count!("edits");
                // identifiers keep the names of the original sentence; `u` and every binder name are
                // supplied as context so that only the grammar decides
                match real_accepts(&edited, &["u", "x"]) {
                    Err(_) => count!("edit_panics_left_to_C14"),
                    Ok((acc, msgs)) => match (is_sentence, acc) {
                        (true, true) => count!("edited_still_sentences_accepted"),
                        (false, false) => count!("edited_nonsentences_rejected"),
                        (true, false) => violation("sentence-rejected", &tok::layout(&edited).0, "accepted (it is a sentence of grammar.y)", &msgs.join(" | ")),
                        (false, true) => violation(
                            "nonsentence-accepted",
                            &tok::layout(&edited).0,
                            "rejected with a syntax error (not a sentence of grammar.y)",
                            &if msgs.is_empty() { "Ok".to_owned() } else { msgs.join(" | ") },
                        ),
                    },
                }
            };
            for p in 0..n {
                let mut d = toks.clone();
                d.remove(p);
                judge(d);
                for k in &kinds {
                    if *k != toks[p].k {
                        let mut s = toks.clone();
                        s[p] = Tok::new(*k);
                        judge(s);
                    }
                }
            }
            for p in 0..=n {
                for k in &kinds {
                    let mut s = toks.clone();
                    s.insert(p, Tok::new(*k));
                    judge(s);
                }
            }
            count!("nontrivial");
        },
        move |idx| {
            let tree = s2.borrow_mut().tree(idx);
            format!("edits of: {}", tok::layout(&name_simple(&slice2, &tree)).0)
        },
    )
}

// The syntax tree specified for a derivation: productions -> nodes, chains to the left, parentheses
// honoured, scope resolved against the context [u].
pub fn expected_tree(g: &Grammar, tree: &Tree, toks: &[Tok], context: &[&str]) -> Result<M, Vec<surface::Fault>> {
    let raw = FromTree::new(g, toks).convert(tree);
    let s = surface::reassoc(&raw);
    surface::resolve(&s, context)
}

// (B) tree shape on every derivation tree.
fn tree_sweep(name: &str, g: Grammar, min_len: usize, max_len: usize) -> Sweep {
    let sentences = Rc::new(RefCell::new(Sentences::new(g.clone(), min_len, max_len)));
    let total = sentences.borrow().total;
    let s2 = sentences.clone();
    let g2 = g.clone();
    Sweep::new(
        name,
        total,
        move |idx| {
            let tree = sentences.borrow_mut().tree(idx);
            let toks = name_simple(&g, &tree);
            count!("evaluations");
            count!("trees");
            let want = match expected_tree(&g, &tree, &toks, &["u"]) {
                Ok(m) => m,
                Err(f) => {
                    crate::infra::machinery(&format!("scope model faults on a simply named sentence: {f:?}"));
                    return;
                }
            };
            let (src, ranges) = tok::layout(&toks);
            let real = tok::real_tokens(&src, &toks, &ranges);
            bind::with_tokens(&src, &real, &["u"], 2, |f| match f {
                Front::Panic { message, .. } => violation("parse-panic", &src, &want.show(), &format!("panic: {message}")),
                Front::ParseErr { errors, .. } => {
                    violation("sentence-rejected", &src, &want.show(), &bind::messages(&errors).join(" | "))
                }
                Front::TypeErr { term, .. } | Front::Ok { term, .. } => {
                    let got = mirror(term);
                    crate::infra::digest(1, idx, crate::infra::fnv(got.key().as_bytes()));
                    if got.same_tree(&want) {
                        count!("trees_equal");
                        if want.size() >= 4 {
                            count!("nontrivial");
                        }
                        if idx % 100_000 == 4242 {
                            crate::infra::sample("tree", || json!({"source": src, "tree": want.show()}));
                        }
                    } else {
                        violation("wrong-tree", &src, &want.show(), &got.show());
                    }
                }
                Front::TokenizeErr(_) => unreachable!(),
            });
        },
        move |idx| {
            let tree = s2.borrow_mut().tree(idx);
            tok::layout(&name_simple(&g2, &tree)).0
        },
    )
}

// The class-representative alphabet of E3.
pub fn class_alphabet() -> Vec<K> {
    vec![
        K::Identifier,
        K::IntegerLiteral,
        K::Type,
        K::LessThan,
        K::DoubleEquals,
        K::Asterisk,
        K::Plus,
        K::Minus,
        K::Colon,
        K::Equals,
        K::Semicolon,
        K::LeftParen,
        K::RightParen,
        K::LeftCurly,
        K::RightCurly,
        K::ThickArrow,
        K::ThinArrow,
        K::If,
        K::Then,
        K::Else,
    ]
}

// Grammar slices: sub-grammars that push the length bound where it matters.
pub fn slices(g: &Grammar) -> Vec<(&'static str, Grammar)> {
    let atoms = [K::Identifier, K::IntegerLiteral, K::LeftParen, K::RightParen];
    let with = |extra: &[K]| -> Vec<K> { atoms.iter().chain(extra).copied().collect() };
    vec![
        ("applications", g.restrict(&with(&[]), &["let"])),
        ("sums-differences-negation", g.restrict(&with(&[K::Plus, K::Minus]), &["let", "application", "non_dependent_pi"])),
        ("products-quotients-negation", g.restrict(&with(&[K::Asterisk, K::Slash, K::Minus]), &["let", "application", "non_dependent_pi", "difference"])),
        ("mixed-arithmetic", g.restrict(&[K::Identifier, K::LeftParen, K::RightParen, K::Plus, K::Asterisk, K::Minus], &["let", "non_dependent_pi"])),
        ("let-groups", g.restrict(&[K::Identifier, K::IntegerLiteral, K::LeftParen, K::RightParen, K::Equals, K::Semicolon, K::Colon], &["annotated_lambda", "pi", "application"])),
        ("binders", g.restrict(&[K::Identifier, K::Type, K::LeftParen, K::RightParen, K::LeftCurly, K::RightCurly, K::Colon, K::ThickArrow, K::ThinArrow], &["let", "application"])),
        ("let-in-binder-domain", g.restrict(&[K::Identifier, K::LeftParen, K::RightParen, K::LeftCurly, K::RightCurly, K::Colon, K::Equals, K::Semicolon, K::ThickArrow, K::ThinArrow], &["application", "non_dependent_pi", "lambda"])),
        // every comparison operator over arithmetic operands (the class alphabet has only `<` and `==`)
        (
            "comparisons",
            g.restrict(
                &[K::Identifier, K::LeftParen, K::RightParen, K::Plus, K::Minus, K::Asterisk, K::Slash, K::LessThan, K::LessThanOrEqualTo, K::DoubleEquals, K::GreaterThan, K::GreaterThanOrEqualTo],
                &["let", "application", "non_dependent_pi"],
            ),
        ),
        // nothing but names, definitions and parentheses: groups nested in definitions and in bodies
        ("groups-only", g.restrict(&[K::Identifier, K::LeftParen, K::RightParen, K::Equals, K::Semicolon], &["application"])),
        ("if-let", g.restrict(&[K::Identifier, K::True, K::If, K::Then, K::Else, K::Equals, K::Semicolon, K::LeftParen, K::RightParen], &["application"])),
    ]
}

// Token-length bound per slice (the slices differ a lot in density).
pub fn slice_bound(name: &str, tier: Tier) -> usize {
    match name {
        "applications" => tier.pick(11, 14),
        "sums-differences-negation" | "products-quotients-negation" => tier.pick(13, 14),
        "mixed-arithmetic" => tier.pick(11, 13),
        "binders" => tier.pick(11, 15),
        "comparisons" => tier.pick(9, 10),
        _ => tier.pick(15, 19),
    }
}

impl Prop for C07 {
    fn id(&self) -> &'static str {
        "C07"
    }
    fn sweeps(&self, tier: Tier) -> Vec<Sweep> {
        let g = Grammar::load();
        let all29: Vec<K> = (0..SYMS29).map(sym29).collect();
        let mut class21 = class_alphabet();
        class21.push(K::LineBreak);
        let mut v = match tier {
            Tier::Quick => vec![accept_sweep(all29, 0, 4), accept_sweep(class21, 5, 5)],
            Tier::Thorough => vec![accept_sweep(all29, 0, 5), accept_sweep(class21, 6, 6)],
        };
        let full: Vec<K> = ALL28.to_vec();
        v.push(tree_sweep("derivation trees, full alphabet", g.clone(), 1, tier.pick(6, 7)));
        v.push(tree_sweep("derivation trees, class alphabet", g.restrict(&class_alphabet(), &[]), tier.pick(7, 8), tier.pick(8, 9)));
        for (name, sg) in slices(&g) {
            let max = slice_bound(name, tier);
            v.push(tree_sweep(&format!("derivation trees, slice {name}"), sg, 7, max));
        }
        let _ = full;
        for (name, sg) in slices(&g) {
            let (lo, hi) = match name {
                "binders" | "let-groups" | "let-in-binder-domain" => (7, tier.pick(9, 11)),
                "if-let" => (7, tier.pick(9, 10)),
                _ => continue,
            };
            v.push(edited_sweep(&format!("slice {name}"), sg, lo, hi));
        }
        v
    }
    fn evidence(&self, tier: Tier) -> EvidenceSpec {
        EvidenceSpec {
            level: "exploration",
            rule: "(A) every token sequence up to length 4/5 over the 28 token kinds plus the line-break terminator, and of length 5/6 over a 21-symbol class alphabet, is parsed by the real `parse` and must be accepted (scoping permitting) iff it is in the set of sentences enumerated from /repo/grammar.y (read at run time); (A') every single-token deletion, substitution and insertion (28 kinds) of every sentence of four sub-grammar slices (binders, definition groups, groups in binder domains, conditionals) of 7..9/11 tokens is accepted iff the span recogniser finds it to be a sentence; (C) no two derivations enumerated from the grammar yield the same sentence; (B) for every derivation tree up to the bounds (full alphabet, class-representative alphabet, and ten sub-grammar slices that reach 9-19 tokens, one of them for all five comparison operators and both quotient and product over arithmetic operands) the real parse result must equal, node for node (variants, binder names, implicitness, literals, de Bruijn indices, hole shifts), the tree specified by the derivation with application / * / + chains folded to the left and parentheses honoured. evaluations = sequences + trees; non-trivial = accepted sentences + trees of at least 4 nodes that compared equal".to_owned(),
            assumptions: vec![
                "the mapping production -> syntax node and the re-association rule are transcribed from the header comment of grammar.y and the property text (engine/src/model/surface.rs)".to_owned(),
                "a parse result consisting solely of scoping / definition-order diagnostics counts as grammatical acceptance".to_owned(),
                "identifier spelling is irrelevant to parsing: binders are named b0,b1,.., uses are named u and bound through parse's context argument".to_owned(),
            ],
            evaluations: "evaluations",
            nontrivial: "nontrivial",
            states: None,
            transitions: None,
            traces: None,
            exhaustive: true,
            bounds: json!({"token_sequences": tier.pick("<= 4 over 29 symbols, 5 over 21", "<= 5 over 29 symbols, 6 over 21"), "trees_full_alphabet_max_tokens": tier.pick(6, 7), "trees_class_alphabet_max_tokens": tier.pick(8, 9), "trees_slices_max_tokens": "12-15 (quick) / 13-19 (thorough), per slice"}),
            minimums: vec![("accepted_sentences", 10_000), ("rejected_nonsentences", 1_000_000), ("trees_equal", 100_000), ("oracle_self_checks", 1000)],
        }
    }
}
