// Shared machinery of the semantic checks (C01-C06, C12, C18, C19): the real front end on a source
// text with mirrors taken at defined instants, the evaluator graph, and the program spaces.
use crate::{
    bind::{self, Front, RunEnd},
    enumerate::{
        terms::{Former, TermSpace},
        typed::{self, Config, Ty},
    },
    infra::Tier,
    model::{
        interp::{self, Outcome, Stuck},
        mterm::{M, Mirror, Op, mirror, rc},
        surface::{self, S, bx},
        typing::{self, Checker, Conv, Judgement},
    },
};
use std::{cell::RefCell, rc::Rc};

pub const TYPING_FUEL: u64 = 60_000;
pub const INTERP_FUEL: u64 = 200_000;

pub enum FrontEnd<'a, 'b> {
    Panic { stage: &'static str, message: String },
    Rejected { stage: &'static str, messages: Vec<String>, order_only: bool },
    Accepted(Accepted<'a, 'b>),
}

pub struct Accepted<'a, 'b> {
    pub source: M,        // parse result, mirrored *before* type checking (holes unresolved)
    pub elab: M,          // elaborated term, mirrored after type checking
    pub ty: M,            // reported type
    pub elab_real: &'b crate::term::Term<'a>,
    pub ty_real: &'b crate::term::Term<'a>,
    pub hole_copies: u64, // H2 events during type checking
    pub source_has_holes: bool,
    pub unresolved_after: bool,
    // number of hole cells of the source program: cells with a larger id were created by the checker
    pub source_cells: usize,
}

// Run the real front end on a source text.
pub fn front_end<R>(src: &str, f: impl FnOnce(FrontEnd) -> R) -> R {
    let tokens = match bind::guard(|| crate::tokenizer::tokenize(None, src)) {
        Err(message) => return f(FrontEnd::Panic { stage: "tokenize", message }),
        Ok(Err(e)) => return f(FrontEnd::Rejected { stage: "tokenize", messages: bind::messages(&e), order_only: false }),
        Ok(Ok(t)) => t,
    };
    let tokens_a: &[crate::token::Token] = unsafe { std::mem::transmute::<&[crate::token::Token], &[crate::token::Token]>(&tokens) };
    let src_a: &str = unsafe { std::mem::transmute::<&str, &str>(src) };
    let term = match bind::guard(|| crate::parser::parse(None, src_a, tokens_a, &[])) {
        Err(message) => return f(FrontEnd::Panic { stage: "parse", message }),
        Ok(Err(e)) => {
            let messages = bind::messages(&e);
            let order_only = !messages.is_empty() && messages.iter().all(|m| m.contains("will not be available in time"));
            return f(FrontEnd::Rejected { stage: "parse", messages, order_only });
        }
        Ok(Ok(t)) => t,
    };
    let mut mir = Mirror::new();
    let source = mir.mirror(&term);
    let source_cells = mir.cells_seen();
    let copies_before = crate::verif_hooks::hole_copies();
    let r = bind::guard(|| {
        let mut tc = vec![];
        let mut dc = vec![];
        crate::type_checker::type_check(None, src_a, &term, &mut tc, &mut dc)
    });
    let hole_copies = crate::verif_hooks::hole_copies() - copies_before;
    match r {
        Err(message) => f(FrontEnd::Panic { stage: "type_check", message }),
        Ok(Err(e)) => f(FrontEnd::Rejected { stage: "type_check", messages: bind::messages(&e), order_only: false }),
        Ok(Ok((elab, ty))) => {
            let elab_m = mir.mirror(&elab);
            let ty_m = mir.mirror(&ty);
            let acc = Accepted {
                source_has_holes: source.has_hole(),
                unresolved_after: elab_m.has_hole(),
                source,
                elab: elab_m,
                ty: ty_m,
                elab_real: &elab,
                ty_real: &ty,
                hole_copies,
                source_cells,
            };
            f(FrontEnd::Accepted(acc))
        }
    }
}

// The evaluator graph of an accepted program: the real `step`, one step at a time.
pub struct Run {
    pub end: RunEnd,
    pub steps: usize,
    pub last: M,
}

pub fn evaluator_graph<'a>(start: &crate::term::Term<'a>, horizon: usize, mut on_state: impl FnMut(usize, &crate::term::Term<'a>, &M)) -> Run {
    let mut last = M::Type;
    let (_, end, steps) = bind::run_steps(start, horizon, |k, t| {
        let m = mirror(t);
        on_state(k, t, &m);
        last = m;
    });
    Run { end, steps, last }
}

pub fn is_syntactic_value(m: &M) -> bool {
    matches!(m, M::Type | M::Lam(..) | M::Pi(..) | M::Int | M::Lit(_) | M::Bool | M::True | M::False)
}

// All definitions named `name` anywhere in a term.
pub fn definitions_named<'m>(m: &'m M, name: &str, out: &mut Vec<&'m M>) {
    match m {
        M::Let(ds, b) => {
            for (n, a, d) in ds {
                if &**n == name {
                    out.push(d);
                }
                definitions_named(a, name, out);
                definitions_named(d, name, out);
            }
            definitions_named(b, name, out);
        }
        M::Lam(_, _, a, b) | M::Pi(_, _, a, b) | M::App(a, b) | M::Bin(_, a, b) => {
            definitions_named(a, name, out);
            definitions_named(b, name, out);
        }
        M::Neg(a) => definitions_named(a, name, out),
        M::If(a, b, c) => {
            definitions_named(a, name, out);
            definitions_named(b, name, out);
            definitions_named(c, name, out);
        }
        _ => {}
    }
}

// Is the elaborated term rejected by the *real* checker when checked again on its own (all holes that
// were solved are now explicit)? Used by the classifier of finding F-HOLE-COPY.
pub fn real_checker_rejects_elaborated(elab: &M) -> bool {
    let real = crate::model::mterm::to_real(elab, &mut Default::default());
    let r = bind::guard(|| {
        let mut tc = vec![];
        let mut dc = vec![];
        crate::type_checker::type_check(None, "", &real, &mut tc, &mut dc).is_err()
    });
    matches!(r, Ok(true))
}

// Finding F-HOLE-COPY: `open` replaced an unresolved hole by a fresh cell while this program was being
// checked (hook H2), so one `_` could be solved twice; the model of the defect: the hook fired, and
// the real checker itself rejects the elaborated term once its solved holes are explicit.
pub fn is_hole_copy_defect(acc: &Accepted) -> bool {
    if !(crate::findings::is_known("F-HOLE-COPY") && acc.hole_copies > 0 && acc.source_has_holes) {
        return false;
    }
    if real_checker_rejects_elaborated(&acc.elab) {
        return true;
    }
    // or: the original of a copied hole stayed unsolved, and that is all that is wrong: with
    // unresolved holes read as wildcards the reference accepts the elaborated term at the reported type
    if acc.unresolved_after {
        let mut ck = Checker::new(TYPING_FUEL);
        ck.holes_are_wildcards = true;
        if let Ok(v) = ck.infer(&typing::Ctx::empty(), &acc.elab) {
            let tv = ck.eval(&typing::Env::Nil, &acc.ty);
            return ck.conv(0, &v, &tv) && !ck.exhausted;
        }
    }
    false
}

fn max_hole_id(m: &M) -> Option<usize> {
    match m {
        M::Hole(c, _) => Some(*c),
        M::Lam(_, _, a, b) | M::Pi(_, _, a, b) | M::App(a, b) | M::Bin(_, a, b) => max_hole_id(a).max(max_hole_id(b)),
        M::Let(ds, b) => ds.iter().map(|(_, a, d)| max_hole_id(a).max(max_hole_id(d))).max().flatten().max(max_hole_id(b)),
        M::Neg(a) => max_hole_id(a),
        M::If(a, b, c) => max_hole_id(a).max(max_hole_id(b)).max(max_hole_id(c)),
        _ => None,
    }
}

// The other face of F-HOLE-COPY: the reported type (or the elaborated term) still contains an
// unresolved cell that is not one of the source program's holes, and `open` copied holes while the
// program was checked: the solution went to the original, the copy stayed empty.
pub fn has_orphan_copy(acc: &Accepted, m: &M) -> bool {
    crate::findings::is_known("F-HOLE-COPY") && acc.hole_copies > 0 && max_hole_id(m).is_some_and(|id| id >= acc.source_cells)
}

// ------------------------------------------------------------------------------------------------
// Program spaces.
// ------------------------------------------------------------------------------------------------

// Convert a closed de Bruijn mirror term to a named surface program (binders named by depth).
pub fn m_to_s(m: &M, env: &mut Vec<String>) -> S {
    let name_at = |env: &Vec<String>, i: usize| env.get(env.len().wrapping_sub(1 + i)).cloned().unwrap_or_else(|| format!("free{i}"));
    match m {
        M::Hole(..) => S::Var("_".to_owned()),
        M::Type => S::Type,
        M::Int => S::Int,
        M::Bool => S::Bool,
        M::True => S::True,
        M::False => S::False,
        M::Lit(n) => {
            if *n < num_bigint::BigInt::from(0) {
                S::Neg(bx(S::Lit((-n.clone()).to_string())))
            } else {
                S::Lit(n.to_string())
            }
        }
        M::Var(_, i) => S::Var(name_at(env, *i)),
        M::Lam(_, imp, a, b) => {
            let ann = m_to_s(a, env);
            let name = format!("v{}", env.len());
            env.push(name.clone());
            let body = m_to_s(b, env);
            env.pop();
            S::Lam { name, implicit: *imp, ann: Some(bx(ann)), body: bx(body) }
        }
        M::Pi(_, imp, a, b) => {
            let dom = m_to_s(a, env);
            let name = format!("v{}", env.len());
            env.push(name.clone());
            let cod = m_to_s(b, env);
            env.pop();
            S::Pi { name: Some(name), implicit: *imp, dom: bx(dom), cod: bx(cod) }
        }
        M::App(a, b) => S::App(bx(m_to_s(a, env)), bx(m_to_s(b, env))),
        M::Let(ds, b) => {
            let base = env.len();
            for i in 0..ds.len() {
                env.push(format!("v{}", base + i));
            }
            let mut parts = vec![];
            for (i, (_, a, d)) in ds.iter().enumerate() {
                parts.push((format!("v{}", base + i), m_to_s(a, env), m_to_s(d, env)));
            }
            let mut body = m_to_s(b, env);
            // a nested group in body position must stay a group of its own
            if matches!(body, S::Let { .. }) {
                body = S::Paren(bx(body));
            }
            for _ in 0..ds.len() {
                env.pop();
            }
            for (name, a, d) in parts.into_iter().rev() {
                body = S::Let { name, ann: Some(bx(a)), def: bx(d), body: bx(body) };
            }
            body
        }
        M::Neg(a) => S::Neg(bx(m_to_s(a, env))),
        M::Bin(o, a, b) => S::Bin(*o, bx(m_to_s(a, env)), bx(m_to_s(b, env))),
        M::If(a, b, c) => S::If(bx(m_to_s(a, env)), bx(m_to_s(b, env)), bx(m_to_s(c, env))),
    }
}

// G1: every closed, fully annotated term with at most n nodes over a small alphabet.
pub fn small_term_space() -> TermSpace {
    let mut atoms = vec![M::Type, M::Int, M::Bool, M::True, M::Lit(num_bigint::BigInt::from(0)), M::Lit(num_bigint::BigInt::from(1))];
    for i in 0..3 {
        atoms.push(M::Var(Rc::from("v"), i));
    }
    let formers = vec![
        Former::Lam(false),
        Former::Pi(false),
        Former::App,
        Former::Bin(Op::Add),
        Former::Bin(Op::Lt),
        Former::If,
        Former::Let(1),
        Former::Let(2),
    ];
    TermSpace::new(atoms, formers)
}

pub fn is_closed(m: &M) -> bool {
    let mut fv = std::collections::BTreeSet::new();
    crate::model::mterm::free_vars(m, 0, &mut fv);
    fv.is_empty()
}

// A program of a space: source text, and (when the generator knows it) the expected type.
pub struct Program {
    pub text: String,
    pub expected: Option<Ty>,
    pub surface: Option<Rc<S>>,
}

pub struct TypedSpace {
    pub programs: Vec<(Ty, Rc<S>)>,
}

thread_local! {
    static TYPED_CACHE: RefCell<Option<(usize, Rc<Vec<(Ty, Rc<S>)>>)>> = const { RefCell::new(None) };
}

pub fn typed_programs(max_size: usize) -> Rc<Vec<(Ty, Rc<S>)>> {
    TYPED_CACHE.with(|c| {
        if let Some((n, v)) = &*c.borrow()
            && *n == max_size
        {
            return v.clone();
        }
        let v = Rc::new(typed::programs(Config::standard(), max_size));
        *c.borrow_mut() = Some((max_size, v.clone()));
        v
    })
}

// Number of programs with at most `size` nodes (they come first in the list).
pub fn typed_programs_count(size: usize) -> usize {
    let mut g = typed::Gen::new(Config::standard());
    let mut n = 0;
    for k in 1..=size {
        for goal in typed::goals() {
            n += g.terms(&vec![], &goal, k).len();
        }
    }
    n
}

// Definition groups that denote types: 1 .. max members named t, u, w, each defined as int, bool,
// int -> int or as an alias of another member (before or after it; cyclic groups are left out), with
// any member or a base type as the body. These are the types on which the structural shortcuts for
// groups in the conversion check have something to get wrong (equal prefixes, equal bodies, equal
// sizes with different members).
pub fn group_types(max_members: usize) -> Vec<String> {
    group_types_with(max_members, false)
}

// With `arrows`, a member may also be a dependent function type into another member,
// `(x : int) -> u`, so that unfolding substitutes members under a binder.
pub fn group_types_with(max_members: usize, arrows: bool) -> Vec<String> {
    let names = ["t", "u", "w"];
    let bases = ["int", "bool", "int -> int"];
    let mut out = vec![];
    for n in 1..=max_members {
        let choices = bases.len() + (n - 1) * if arrows { 2 } else { 1 };
        for code in 0..choices.pow(n as u32) {
            // definition i: base (c < 3), alias of the (c - 3)-th other member, or a function type into it
            let mut c = code;
            let mut defs: Vec<Result<&str, usize>> = vec![];
            let mut arrow = vec![];
            for i in 0..n {
                let d = c % choices;
                c /= choices;
                let others: Vec<usize> = (0..n).filter(|j| *j != i).collect();
                if d < bases.len() {
                    defs.push(Ok(bases[d]));
                    arrow.push(false);
                } else if d < bases.len() + n - 1 {
                    defs.push(Err(others[d - bases.len()]));
                    arrow.push(false);
                } else {
                    defs.push(Err(others[d - bases.len() - (n - 1)]));
                    arrow.push(true);
                }
            }
            // acyclic?
            let cyclic = (0..n).any(|start| {
                let mut at = start;
                for _ in 0..=n {
                    match defs[at] {
                        Ok(_) => return false,
                        Err(j) => at = j,
                    }
                }
                true
            });
            if cyclic {
                continue;
            }
            let text: Vec<String> = (0..n)
                .map(|i| {
                    format!(
                        "{} : type = {}",
                        names[i],
                        match defs[i] {
                            Ok(b) => b.to_owned(),
                            Err(j) if arrow[i] => format!("(x{i} : int) -> {}", names[j]),
                            Err(j) => names[j].to_owned(),
                        }
                    )
                })
                .collect();
            for body in names[..n].iter().chain(["int", "bool"].iter()) {
                out.push(format!("{}; {body}", text.join("; ")));
            }
        }
    }
    out
}

// The type-pair family: for every ordered pair (T1, T2) of the `k` smallest closed terms of type `type`
// (function types also with the implicitness of their outermost binder flipped) and of the group types
// above, three programs in
// which the checker has to decide T1 = T2 — an argument against a parameter type, the two branches of
// a conditional, a definition against its annotation. Each is well typed iff T1 and T2 are convertible.
pub fn type_pair_family(k: usize, tier: Tier) -> Vec<String> {
    let progs = typed_programs(typed_size(tier));
    let mut types: Vec<String> = vec![];
    for (goal, s) in progs.iter() {
        if *goal != Ty::Type {
            continue;
        }
        types.push(surface::print(s));
        if let Ok(M::Pi(n, i, a, b)) = surface::resolve(s, &[]) {
            types.push(surface::print(&m_to_s(&M::Pi(n, !i, a, b), &mut vec![])));
        }
        if types.len() >= k {
            break;
        }
    }
    types.truncate(k);
    types.extend(group_types(tier.pick(2, 3)));
    let mut out = vec![];
    for t1 in &types {
        for t2 in &types {
            out.push(format!("(ff : ({t1}) -> int) => (xx : ({t2})) => ff xx"));
            out.push(format!("(xx : ({t1})) => (yy : ({t2})) => if true then xx else yy"));
            out.push(format!("(xx : ({t1})) => (yy : ({t2}) = xx; 0)"));
        }
    }
    // The same three meetings for open types under two type parameters, with a type-level function
    // whose body is a definition group (so that reducing `pick a` substitutes an open term into a group).
    let bodies = ["c", "(z : type = int; c)", "(z : type = c; z)", "(z : type = c; w : type = z; w)", "(z : type = int; w : type = c; w)", "(z : type = int; z)", "if true then c else int", "(z : type = int; w : type = bool; c)", "(z : type = int; w : type = z; v : type = bool; c)"];
    let open_types = ["a", "b", "int", "pick a", "pick b", "pick int", "(z : type = a; z)", "(z : type = int; a)", "(z : type = b; w : type = a; w)", "a -> b", "pick a -> pick b", "(q : pick a) -> b"];
    for body in bodies {
        for t1 in open_types {
            for t2 in open_types {
                let head = format!("pick : (type -> type) = ((c : type) => {body}); (a : type) => (b : type) => ");
                out.push(format!("{head}(ff : ({t1}) -> int) => (xx : ({t2})) => ff xx"));
                out.push(format!("{head}(xx : ({t1})) => (yy : ({t2})) => if true then xx else yy"));
                out.push(format!("{head}(xx : ({t1})) => (yy : ({t2}) = xx; 0)"));
            }
        }
    }
    // Types that are conditionals stuck on a boolean parameter (and on a comparison of an integer
    // parameter): conversion has to compare both branches of two stuck conditionals.
    let stuck_types = [
        "if c then int else bool", "if c then int else int -> int", "if c then bool else int", "if c then int else int", "int", "bool",
        "if n < 1 then int else bool", "if n < 1 then int else int -> int", "if c then (if c then int else bool) else bool",
    ];
    for t1 in stuck_types {
        for t2 in stuck_types {
            let head = "(c : bool) => (n : int) => ";
            out.push(format!("{head}(ff : ({t1}) -> int) => (xx : ({t2})) => ff xx"));
            out.push(format!("{head}(xx : ({t1})) => (yy : ({t2})) => if true then xx else yy"));
            out.push(format!("{head}(xx : ({t1})) => (yy : ({t2}) = xx; 0)"));
        }
    }
    // Indexes that are arithmetic stuck on parameters: p (n + n) against p (m + m) and the like.
    let stuck_ints = ["n + n", "m + m", "n + m", "m + n", "n * n", "m * m", "n * m", "n - n", "m - m", "n", "m", "n + 1", "1 + n", "n / 2", "n / (1 + 1)", "2 * n", "(1 + 1) * n", "n - 2", "n - (1 + 1)"];
    for e1 in stuck_ints {
        for e2 in stuck_ints {
            out.push(format!("(pp : int -> type) => (n : int) => (m : int) => (mk : (kk : int) -> pp ({e1})) => (ww : pp ({e2}) = mk 3; 0)"));
        }
    }
    // Two terms of one kind K meeting under an opaque type constructor: accepted iff E1 and E2 are
    // convertible. `mk 3 : p E1` is obtained by instantiating a dependent codomain, so E1 has passed
    // through substitution before the comparison. Kinds: int, bool, int -> int, the polymorphic identity
    // type and its implicit twin (with the implicit twins of the generated lambdas).
    let per_kind = tier.pick(24, 60);
    let mut kinds: Vec<(String, Vec<String>)> = vec![];
    for goal in [Ty::Int, Ty::Bool, Ty::fun(Ty::Int, Ty::Int), Ty::Poly] {
        let pool: Vec<&Rc<S>> = progs.iter().filter(|(g, _)| *g == goal).map(|(_, s)| s).take(per_kind).collect();
        kinds.push((surface::print(&goal.expr()), pool.iter().map(|s| surface::print(s)).collect()));
        if goal == Ty::Poly {
            let twins: Vec<String> = pool
                .iter()
                .filter_map(|s| match surface::resolve(s, &[]) {
                    Ok(M::Lam(n, i, a, b)) => Some(surface::print(&m_to_s(&M::Lam(n, !i, a, b), &mut vec![]))),
                    _ => None,
                })
                .collect();
            kinds.push(("{a : type} -> a -> a".to_owned(), twins));
        }
    }
    for (kind, pool) in &kinds {
        for e1 in pool {
            for e2 in pool {
                out.push(format!("(pp : ({kind}) -> type) => (mk : (nn : int) -> pp ({e1})) => (ww : pp ({e2}) = mk 3; 0)"));
            }
        }
    }
    // a constructor with two indexes: every argument of the spine has to be compared up to reduction
    let ints = ["2", "(1 + 1)", "(z : int = 2; z)", "(if true then 2 else 3)", "3"];
    for a1 in ints {
        for b1 in ints {
            for a2 in ints {
                for b2 in ints {
                    out.push(format!("(pp : int -> int -> type) => (mk : (nn : int) -> pp {a1} {b1}) => (ww : pp {a2} {b2} = mk 3; 0)"));
                }
            }
        }
    }
    // Closed arithmetic and comparisons *inside types*: every operator on every pair of small literals
    // (equal, unequal, negative, and one operand that still has to be computed), as the condition of a
    // conditional type that an annotation has to match, and as the index of an opaque type family that
    // is compared with the literal result and with its neighbour. Each program is well typed for exactly
    // one of the two candidates, so a rule of the normaliser that folds an operator wrongly is seen both
    // as a program that must be accepted and as a program that must not.
    let lits = ["0", "1", "2", "(0 - 1)", "(1 + 1)"];
    for op in ["+", "-", "*", "/", "<", "<=", "==", ">", ">="] {
        for a in lits {
            for b in lits {
                if ["<", "<=", "==", ">", ">="].contains(&op) {
                    for v in ["1", "true"] {
                        out.push(format!("xx : (if {a} {op} {b} then int else bool) = {v}; xx"));
                    }
                    for r in ["true", "false"] {
                        out.push(format!("(pp : bool -> type) => (uu : pp ({a} {op} {b})) => (kk : pp {r} -> int) => kk uu"));
                    }
                } else {
                    for r in ["(0 - 2)", "(0 - 1)", "0", "1", "2", "3", "4"] {
                        out.push(format!("(pp : int -> type) => (uu : pp ({a} {op} {b})) => (kk : pp {r} -> int) => kk uu"));
                    }
                }
            }
        }
    }
    for a in lits {
        for r in ["(0 - 2)", "(0 - 1)", "0", "1", "2"] {
            out.push(format!("(pp : int -> type) => (uu : pp (-{a})) => (kk : pp {r} -> int) => kk uu"));
        }
    }
    // A binder whose domain is the NAME of a definition, in a group where the neighbouring definitions
    // decide whether that name is a type: `kind = K; sort = S; point : kind = V; (w : point) -> bool` (and the
    // lambda form), at top level and under a parameter. Well typed exactly when `point` is a type; the
    // check "the domain is a type" is made in the scope of the binder's own position, not one further in.
    for k in ["type", "int", "bool"] {
        for s_ in ["type", "int"] {
            for v in ["int", "bool", "1 + 1", "true"] {
                for (pre, post) in [("", ""), ("(nn : int) => (", ")")] {
                    out.push(format!("{pre}kind = {k}; sort = {s_}; point : kind = {v}; (ww : point) -> bool{post}"));
                    out.push(format!("{pre}kind = {k}; point : kind = {v}; sort = {s_}; (ww : point) => 1{post}"));
                    out.push(format!("{pre}sort = {s_}; kind = {k}; point : kind = {v}; (ww : point) -> (zz : point) -> sort{post}"));
                }
            }
        }
    }
    // Dependent function types with two type parameters, one written out and one obtained by applying a
    // type-level function (so that the comparison cannot be settled syntactically and goes through
    // normalisation), under three spellings of the binder names: the same names at the same positions,
    // the two names exchanged, and the function's own binder named like the *outer* binder of the other
    // type. After the reduction two different binders of the same name are in scope at once; variables
    // are compared by index, never by name. Also as the annotation of a definition that is then used.
    let results = |x: &str, y: &str| -> Vec<String> { vec![x.to_owned(), y.to_owned(), format!("{x} -> {y}"), format!("{y} -> {x}")] };
    for (n1, n2) in [("aa", "bb"), ("bb", "aa"), ("cc", "aa")] {
        for (i1, r1) in results("aa", "bb").into_iter().enumerate() {
            for (i2, r2) in results("tt", n2).into_iter().enumerate() {
                let t1 = format!("(aa : type) -> (bb : type) -> {r1}");
                let t2 = format!("({n1} : type) -> ((tt : type) => ({n2} : type) -> {r2}) {n1}");
                out.push(format!("(ff : ({t1}) -> int) => (ww : ({t2})) => ff ww"));
                out.push(format!("(ff : ({t2}) -> int) => (ww : ({t1})) => ff ww"));
                out.push(format!("(ww : ({t1})) => (uu : ({t2})) => if true then ww else uu"));
                out.push(format!("(ww : ({t2})) => (uu : ({t1}) = ww; 0)"));
                // a polymorphic function checked against the computed type, then used at int and bool
                let body = ["(aa : type) => (bb : type) => (zz : aa) => zz", "(aa : type) => (bb : type) => (zz : bb) => zz"][(i1 + i2) % 2];
                out.push(format!("arrow : (type -> type) = (tt : type) => ({n2} : type) -> {r2}; pick : (({n1} : type) -> arrow {n1}) = {body}; pick"));
            }
        }
    }
    out
}

// The late-hole family: a parameter without annotation (`x =>`, a hole written at one depth) whose type
// is fixed only further in, under more binders and definition groups, by the way `x` is used: every
// sequence of up to two binders before it (a type parameter, an integer parameter), every sequence of
// up to three items after it (a function parameter over the type parameter, a boolean parameter, a
// parameter of the type parameter's type, the groups `t = int` / `t = bool` around the rest) and
// fourteen bodies. The solution recorded for the hole is
// then looked at from several depths and across definitions. Ill-scoped members are rejected by the
// parser and do not count.
pub fn late_hole_family() -> Vec<String> {
    let pre = ["(a : type) => ", "(n : int) => "];
    let mid = ["(f : a -> int) => ", "(c : bool) => ", "(t = int; @)", "(t = bool; @)", "(g : int -> a) => ", "(w : a) => "];
    let bodies = ["f x", "x + 1", "if c then x else f x", "if c then f x else x", "if c then x else g n", "(y : t = x; y)", "(y : t = x; z : bool = x; 0)", "(y : t = x; x + 1)", "(y : t = x; if x then 1 else 2)", "(z : bool = x; y : t = x; 0)", "(y : t = 3; (if false then y else x) + 1)", "(y : t = 3; if false then x else y)", "(y : t = if true then x else w; y)", "(y : t = if true then w else x; y)"];
    let mut pres: Vec<String> = vec![String::new()];
    for p in pre {
        pres.push(p.to_owned());
        for q in pre {
            if p != q {
                pres.push(format!("{p}{q}"));
            }
        }
    }
    let mut mids: Vec<Vec<&str>> = vec![vec![]];
    for a in mid {
        mids.push(vec![a]);
        for b in mid {
            if a != b {
                mids.push(vec![a, b]);
                for c in mid {
                    if c != a && c != b {
                        mids.push(vec![a, b, c]);
                    }
                }
            }
        }
    }
    let mut out = vec![];
    for p in &pres {
        for m in &mids {
            for body in bodies {
                // nest the items: a binder prefixes the rest, a group wraps the rest
                let mut rest = body.to_owned();
                for item in m.iter().rev() {
                    rest = if item.contains('@') { item.replace('@', &rest) } else { format!("{item}{rest}") };
                }
                out.push(format!("{p}x => {rest}"));
                // the function applied: the argument's type meets whatever was recorded for the hole
                if p.is_empty() {
                    out.push(format!("(x => {rest}) true"));
                    out.push(format!("(x => {rest}) 3"));
                }
            }
        }
    }
    out
}

pub fn typed_size(tier: Tier) -> usize {
    tier.pick(6, 7)
}

pub fn ty_to_m(t: &Ty) -> M {
    surface::resolve(&t.expr(), &[]).expect("type expression resolves")
}

// Reference judgement of a closed term against an expected closed type expression.
pub enum RefVerdict {
    WellTyped,          // reference accepts and the type is convertible with the expected one
    WrongType(String),  // reference accepts but with another type
    IllTyped(String),
    Unknown,
}

pub fn reference_check(term: &M, expected_type: Option<&M>) -> RefVerdict {
    let (j, mut ck) = typing::check_closed(term, TYPING_FUEL);
    match j {
        Judgement::Unknown => RefVerdict::Unknown,
        Judgement::Ill(e) => RefVerdict::IllTyped(format!("{e:?}")),
        Judgement::Ok(v) => match expected_type {
            None => RefVerdict::WellTyped,
            Some(t) => match typing::type_matches(&mut ck, &v, t) {
                Conv::Equal => RefVerdict::WellTyped,
                Conv::Unknown => RefVerdict::Unknown,
                Conv::Different => {
                    let q = ck.quote(0, &v);
                    RefVerdict::WrongType(q.show())
                }
            },
        },
    }
}

// Order-independent divergence analysis: does some piece of the program (a subterm, annotation or
// definition, in its own context) fail to reach weak-head normal form within a small fuel in the
// reference, or does a definition need its own value? Errs towards "yes" (never a false alarm: a
// flagged program is simply not run on the real checker).
pub fn has_divergent_piece(m: &M) -> bool {
    fn go(ck_fuel: u64, env: &typing::Env, level: usize, t: &M) -> bool {
        let mut ck = Checker::new(ck_fuel);
        let v = ck.eval(env, t);
        // look one layer into the head normal form as well (arguments of stuck operators are forced)
        let _ = ck.quote(level, &v);
        if ck.exhausted {
            return true;
        }
        let fresh = |l: usize| typing::done(typing::V::N(Rc::new(typing::Neutral::Var(l))));
        match t {
            M::Lam(_, _, a, b) | M::Pi(_, _, a, b) => go(ck_fuel, env, level, a) || go(ck_fuel, &env.push(fresh(level)), level + 1, b),
            M::App(a, b) | M::Bin(_, a, b) => go(ck_fuel, env, level, a) || go(ck_fuel, env, level, b),
            M::Let(ds, b) => {
                let mut ck2 = Checker::new(ck_fuel);
                let e = ck2.group_env(env, ds);
                ds.iter().any(|(_, a, d)| go(ck_fuel, &e, level, a) || go(ck_fuel, &e, level, d)) || go(ck_fuel, &e, level, b)
            }
            M::Neg(a) => go(ck_fuel, env, level, a),
            M::If(a, b, c) => go(ck_fuel, env, level, a) || go(ck_fuel, env, level, b) || go(ck_fuel, env, level, c),
            _ => false,
        }
    }
    go(3000, &typing::Env::Nil, 0, m)
}

// Skeleton equality (C05, second sentence): the elaborated term is the source term with holes and
// omitted annotations filled in; nothing else is rewritten, reordered, duplicated or dropped.
pub fn skeleton_mismatch(source: &M, elab: &M) -> Option<String> {
    skeleton_mismatch_with(source, elab, false)
}

// `printed`: the second term was read back from printed text, which does not show the names of
// function-type parameters that are not used (so those names, and the names carried by variable
// occurrences, are not compared; indices, implicitness and everything else are).
pub fn skeleton_mismatch_with(source: &M, elab: &M, printed: bool) -> Option<String> {
    match (source, elab) {
        (M::Hole(..), _) => None,
        (M::Type, M::Type) | (M::Int, M::Int) | (M::Bool, M::Bool) | (M::True, M::True) | (M::False, M::False) => None,
        (M::Lit(a), M::Lit(b)) if a == b => None,
        (M::Var(n, i), M::Var(m, j)) if i == j && (printed || n == m) => None,
        (M::Pi(_, i, a1, b1), M::Pi(_, j, a2, b2)) if printed && i == j => skeleton_mismatch_with(a1, a2, printed).or_else(|| skeleton_mismatch_with(b1, b2, printed)),
        (M::Lam(n, i, a1, b1), M::Lam(m, j, a2, b2)) | (M::Pi(n, i, a1, b1), M::Pi(m, j, a2, b2)) if n == m && i == j => {
            skeleton_mismatch_with(a1, a2, printed).or_else(|| skeleton_mismatch_with(b1, b2, printed))
        }
        (M::App(a1, b1), M::App(a2, b2)) => skeleton_mismatch_with(a1, a2, printed).or_else(|| skeleton_mismatch_with(b1, b2, printed)),
        (M::Bin(o, a1, b1), M::Bin(p, a2, b2)) if o == p => skeleton_mismatch_with(a1, a2, printed).or_else(|| skeleton_mismatch_with(b1, b2, printed)),
        (M::Let(d1, b1), M::Let(d2, b2)) if d1.len() == d2.len() => {
            for ((n, a, d), (m, c, e)) in d1.iter().zip(d2) {
                if n != m {
                    return Some(format!("definition {n} became {m}"));
                }
                if let Some(x) = skeleton_mismatch_with(a, c, printed).or_else(|| skeleton_mismatch_with(d, e, printed)) {
                    return Some(x);
                }
            }
            skeleton_mismatch_with(b1, b2, printed)
        }
        (M::Neg(a), M::Neg(b)) => skeleton_mismatch_with(a, b, printed),
        (M::If(a1, b1, c1), M::If(a2, b2, c2)) => {
            skeleton_mismatch_with(a1, a2, printed).or_else(|| skeleton_mismatch_with(b1, b2, printed)).or_else(|| skeleton_mismatch_with(c1, c2, printed))
        }
        (s, e) => Some(format!("source has {} where the elaborated term has {}", s.show(), e.show())),
    }
}

// G3a: the alias family. Groups of k type aliases (each standing for int or for another alias of the
// group, acyclic) and one value definition annotated with one of them, in every order, with three
// bodies (the value, the value plus one, an identity function annotated with an alias); fully
// annotated, or with the annotations of the aliases omitted.
pub fn alias_family(max_k: usize) -> Vec<(Ty, String, bool)> {
    fn permutations(n: usize) -> Vec<Vec<usize>> {
        if n == 0 {
            return vec![vec![]];
        }
        let mut out = vec![];
        for p in permutations(n - 1) {
            for i in 0..=p.len() {
                let mut q = p.clone();
                q.insert(i, n - 1);
                out.push(q);
            }
        }
        out
    }
    let mut out = vec![];
    for k in 1..=max_k {
        // targets[i] in 0..=k: k means `int`, j < k means alias j
        let mut targets = vec![0usize; k];
        'outer: loop {
            // acyclic?
            let acyclic = (0..k).all(|s| {
                let mut cur = s;
                for _ in 0..=k {
                    if targets[cur] == k {
                        return true;
                    }
                    cur = targets[cur];
                }
                false
            });
            if acyclic {
                for perm in permutations(k + 1) {
                    for ann_alias in 0..k {
                        for body_kind in 0..3 {
                            for annotated in [true, false] {
                                let mut defs = vec![];
                                for slot in &perm {
                                    if *slot == k {
                                        defs.push(format!("y : t{ann_alias} = 4"));
                                    } else {
                                        let target = if targets[*slot] == k { "int".to_owned() } else { format!("t{}", targets[*slot]) };
                                        defs.push(if annotated { format!("t{slot} : type = {target}") } else { format!("t{slot} = {target}") });
                                    }
                                }
                                let (body, ty) = match body_kind {
                                    0 => ("y".to_owned(), Ty::Int),
                                    1 => ("y + 1".to_owned(), Ty::Int),
                                    _ => (format!("(z : t{ann_alias}) => z"), Ty::fun(Ty::Int, Ty::Int)),
                                };
                                out.push((ty.clone(), format!("{}; {body}", defs.join("; ")), annotated));
                                // and used as an operand (the group's type has to be rebuilt outside the group)
                                if body_kind == 0 {
                                    out.push((Ty::Int, format!("({}; {body}) + 1", defs.join("; ")), annotated));
                                }
                            }
                        }
                    }
                }
            }
            // next assignment of targets
            let mut i = 0;
            loop {
                if i == k {
                    break 'outer;
                }
                targets[i] += 1;
                if targets[i] <= k {
                    break;
                }
                targets[i] = 0;
                i += 1;
            }
        }
    }
    out
}

// G3c: the value-boundary family. Whether a definition "is a value" is judged syntactically in three
// places (the parser's definition-order rule, the evaluator's choice of the definition to substitute
// next, the evaluator's notion of a finished term), and they have to agree. Groups of 2 and 3
// definitions, each one of: a literal, terms that are *almost* literals (`-1`, `- -1`, `(1)`, `-(1)`),
// closed computed terms (a sum, a conditional, a redex, a nested group), an alias / negation / sum /
// call of another member, a function (closed, or mentioning another member); the body is one of the
// members. No annotations (the checker infers them), so ill-typed combinations are simply rejected.
pub fn value_boundary_family(max_k: usize) -> Vec<String> {
    let closed = ["1", "-1", "- -1", "(1)", "-(1)", "1 + 2", "if true then 1 else 2", "((n : int) => n) 4", "(z = 3; z)", "(n => n + 1)"];
    let mut out = vec![];
    for k in 2..=max_k {
        let mut shapes: Vec<Vec<String>> = vec![];
        for i in 0..k {
            let mut v: Vec<String> = closed.iter().map(|s| s.to_string()).collect();
            for j in 0..k {
                if j != i {
                    v.push(format!("d{j}"));
                    v.push(format!("-d{j}"));
                    v.push(format!("d{j} + 1"));
                    v.push(format!("d{j} 2"));
                    v.push(format!("(n => n + d{j})"));
                }
            }
            shapes.push(v);
        }
        let per = shapes[0].len();
        let total = per.pow(k as u32);
        for code in 0..total {
            let mut c = code;
            let mut defs = vec![];
            for (i, sh) in shapes.iter().enumerate() {
                defs.push(format!("d{i} = {}", sh[c % per]));
                c /= per;
            }
            for b in 0..k {
                out.push(format!("{}; d{b}", defs.join("; ")));
            }
        }
    }
    out
}

// G3b: the nested-group family. Two functions f and g of one group (either order; f recursive, or
// referring forward to g, or mutually recursive with it), a definition group nested in f's body
// (with the recursive call in the nested group's body, or in its definitions, or capturing the
// parameter in a local function), a result definition that is itself a nested group, and three
// bodies. Fully annotated; the expected result is whatever the reference interpreter computes.
pub fn nested_family() -> Vec<String> {
    let fbodies = [
        "g (g x)",
        "if x <= 0 then 0 else x + f (x - 1)",
        "(m : int = x - 1; if x <= 0 then 0 else x + f m)",
        "(m : int = g x; n : int = m * 2; n - x)",
        "if x <= 0 then 0 else (m : int = f (x - 1); m + g x)",
        "(h : (int -> int) = (z : int) => z + x; h (g x))",
        "(m : int = x - 1; n : int = g m; if x <= 0 then n else f m + n)",
    ];
    let gbodies = ["y + 1", "y * 2", "if y <= 0 then 0 else f (y - 1)"];
    let results = ["", "r : int = f 3", "r : int = (s : int = 2; f s)", "r : int = (s : int = 2; t : int = f s; t + s)"];
    let bodies = ["r", "f 2 + r", "(u : int = r; u + f 1)"];
    let mut out = vec![];
    for fb in fbodies {
        for gb in gbodies {
            for f_first in [true, false] {
                for res in results {
                    for body in bodies {
                        let fd = format!("f : (int -> int) = (x : int) => {fb}");
                        let gd = format!("g : (int -> int) = (y : int) => {gb}");
                        let fd2 = fd.clone();
                        let gd2 = format!("g : (int -> int) = (y : int) => y + c");
                        let mut defs = if f_first { vec![fd, gd.clone()] } else { vec![gd.clone(), fd] };
                        let body = if res.is_empty() { body.replace('r', "f 3") } else { body.to_owned() };
                        // with and without two further, independent helper functions after f and g
                        let mut with_helpers = defs.clone();
                        with_helpers.push("h : (int -> int) = (w : int) => w * 3".to_owned());
                        with_helpers.push("k : (int -> int) = (w : int) => 0 - w".to_owned());
                        if !res.is_empty() {
                            defs.push(res.to_owned());
                            with_helpers.push(res.to_owned());
                        }
                        out.push(format!("{}; {body}", defs.join("; ")));
                        out.push(format!("{}; {body}", with_helpers.join("; ")));
                        // the computed result FIRST, before the (recursive) functions it calls: functions are
                        // values and therefore available to the whole group
                        if !res.is_empty() {
                            let mut result_first = vec![res.to_owned()];
                            result_first.extend(if f_first { vec![fd2.clone(), gd.clone()] } else { vec![gd.clone(), fd2.clone()] });
                            out.push(format!("{}; {body}", result_first.join("; ")));
                        }
                        // a non-value constant defined AFTER the functions that use it and before the
                        // result that calls them (forward reference from a function to a non-value)
                        if !res.is_empty() && gb == "y + 1" {
                            let mut with_const = if f_first { vec![fd2.clone(), gd2.clone()] } else { vec![gd2.clone(), fd2.clone()] };
                            with_const.push("c : int = 2 * 5".to_owned());
                            with_const.push(res.to_owned());
                            out.push(format!("{}; {body}", with_const.join("; ")));
                        }
                    }
                }
            }
        }
    }
    out.sort();
    out.dedup();
    out
}

// Reference model of the definition-order rule (C01's mechanism, stated in the property): in every
// definition group, a definition that is not a syntactic value may only depend — directly, or
// indirectly through definitions that are syntactic values — on definitions that have been evaluated
// by the time it is evaluated, i.e. on non-value definitions strictly before it. Returns true if some
// group of the term breaks the rule. Only the *definitions* are inspected (annotations are not
// evaluated).
pub fn order_rule_violated(m: &M) -> bool {
    fn group_violates(ds: &[(Rc<str>, crate::model::mterm::R, crate::model::mterm::R)]) -> bool {
        let n = ds.len();
        for i in 0..n {
            if is_syntactic_value(&ds[i].2) {
                continue;
            }
            let mut visited = vec![false; n];
            let mut stack = vec![i];
            let mut first = true;
            while let Some(cur) = stack.pop() {
                let mut fv = std::collections::BTreeSet::new();
                crate::model::mterm::free_vars(&ds[cur].2, 0, &mut fv);
                let _ = first;
                first = false;
                for v in fv {
                    if v >= n {
                        continue;
                    }
                    let j = n - 1 - v;
                    if visited[j] {
                        continue;
                    }
                    visited[j] = true;
                    if is_syntactic_value(&ds[j].2) {
                        stack.push(j);
                    } else if j >= i {
                        return true;
                    }
                }
            }
        }
        false
    }
    match m {
        M::Let(ds, b) => group_violates(ds) || ds.iter().any(|(_, a, d)| order_rule_violated(a) || order_rule_violated(d)) || order_rule_violated(b),
        M::Lam(_, _, a, b) | M::Pi(_, _, a, b) | M::App(a, b) | M::Bin(_, a, b) => order_rule_violated(a) || order_rule_violated(b),
        M::Neg(a) => order_rule_violated(a),
        M::If(a, b, c) => order_rule_violated(a) || order_rule_violated(b) || order_rule_violated(c),
        _ => false,
    }
}
