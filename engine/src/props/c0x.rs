// C01, C02, C03, C04, C06: the evaluator-graph checks (see semrun.rs for the shared traversal).
use crate::{
    infra::{EvidenceSpec, Prop, Sweep, Tier},
    props::{
        sem,
        semrun::{self, Which},
    },
};
use serde_json::json;

pub struct Sem(pub Which);

const SPACE: &str = "Program space: every program produced by type-directed enumeration up to the size bound (see C05), its variants with each single annotation omitted or replaced by `_` and with all annotations omitted; every closed fully annotated term up to the node bound over a small alphabet (pre-screened by the reference for divergent pieces); the alias family (groups of type aliases in every order, annotated and not); the value-boundary family (groups of two and three members, each a literal, an almost-literal such as -1 or (1), a computed term, an alias / negation / sum / call of another member, or a function); for C01, C03 and C04 the type-pair family; and, for every accepted program whose reported type is a function type over a simple domain (int, bool, type and non-dependent function types over them), the program applied to closed arguments of that domain, `(P) a` and `((P) a) b` (elimination contexts: two arguments per base type, so that both branches of a test are taken; arguments for which the reference does not bring the instance of the codomain to weak-head normal form are left out); ";

impl Prop for Sem {
    fn id(&self) -> &'static str {
        match self.0 {
            Which::C01 => "C01",
            Which::C02 => "C02",
            Which::C03 => "C03",
            Which::C04 => "C04",
            Which::C06 => "C06",
        }
    }
    fn sweeps(&self, tier: Tier) -> Vec<Sweep> {
        let mut v = semrun::sweeps_for(self.0, tier);
        if self.0 == Which::C06 {
            v.extend(crate::props::c06::pair_sweeps(tier));
        }
        v
    }
    fn evidence(&self, tier: Tier) -> EvidenceSpec {
        let bounds = json!({"typed_program_nodes": sem::typed_size(tier), "small_term_nodes": tier.pick(6, 7), "step_horizon": semrun::horizon(tier), "alias_group_size": tier.pick(2, 3)});
        let base_assumptions = vec![
            "reference interpreter (engine/src/model/interp.rs) and reference type checker (engine/src/model/typing.rs) are the trusted base; both are fuel-bounded and an exhausted fuel never yields a verdict".to_owned(),
            "programs that need more steps than the horizon are reported as 'no violation within the horizon'".to_owned(),
        ];
        match self.0 {
            Which::C01 => EvidenceSpec {
                level: "model_checking",
                rule: format!("{SPACE}the definition-order family (every group of up to 3 definitions, each a literal, a lambda or a non-value expression mentioning any subset of the group, each group variable as the body, at top level and nested in a called function). States = terms reached by the real `evaluator::step`, called one step at a time from the elaborated term of every accepted program; transitions = steps. Invariant in every final state: it is a value, or the horizon was reached, or the reference interpreter started from that very state reports a division by zero; any other stuck state is a violation labelled with the reference's reason (unavailable definition, non-function called, wrong operand, unfilled hole). non-trivial = accepted programs that reached a value or a division by zero"),
                assumptions: base_assumptions,
                evaluations: "evaluations",
                nontrivial: "nontrivial",
                states: Some("states"),
                transitions: Some("transitions"),
                traces: Some("reached_value"),
                exhaustive: true,
                bounds,
                minimums: vec![("accepted", 50_000), ("reached_value", 30_000), ("stuck_on_division_by_zero", 100)],
            },
            Which::C02 => EvidenceSpec {
                level: "model_checking",
                rule: "Operand sweep: every one of the 9 binary operators and negation on every ordered pair of 19 boundary integers, each pair also with the right operand, the left operand and both operands still to be computed when the operator is reached (`a op (b + 0)`, `(1 * a) op b`, a conditional and a call), (0, +-1, +-2, +-3, +-7, +-2^31, +-(2^63-1), +-2^63, +-2^64, +-10^30; negative operands spelled both -n and 0 - n), expected results computed by the reference (division specified by its defining identity); factorial, Fibonacci, even/odd mutual recursion, accumulator recursion, higher-order `twice`, Ackermann for small arguments, evaluation-order probes in which only the prescribed order avoids a division by zero or a loop, 60 groups of four definitions with every subset of members named `_`, the repository's terminating examples; every sentence of the arithmetic / comparison sub-grammar over literals up to 11/12 tokens (all nine operators, negation, parentheses; distinct literal values by position; prescribed value = the reference interpreter on the tree grammar.y assigns, ill-typed sentences must be rejected); every type-directed program, the alias family and the type-valued groups. States = terms reached by the real `step`; in every visited state the reference interpreter started from that state must produce the same outcome as from the source program (semantic invariance), and the final value must be the prescribed one. non-trivial = programs whose ground value was compared".to_owned(),
                assumptions: base_assumptions,
                evaluations: "evaluations",
                nontrivial: "nontrivial",
                states: Some("states"),
                transitions: Some("transitions"),
                traces: Some("traces_validated"),
                exhaustive: true,
                bounds,
                minimums: vec![("known_result_programs", 3000), ("expression_sentences", 20_000), ("value_as_prescribed", 30_000), ("traces_validated", 100_000)],
            },
            Which::C03 => EvidenceSpec {
                level: "exploration",
                rule: format!("{SPACE}and every single-point perturbation of every type-directed program up to 5 nodes (quick) / of every size (thorough) (at every subterm position, annotations included, the subterm replaced by an atom of each class: 0, true, int, a function; one argument of a spine dropped), and the type-pair family (ordered pairs of the smallest generated types and of all definition groups denoting types meeting at an argument, at the branches of a conditional and at an annotated definition; the same for open types under two type parameters with a type-level function whose body is a group; types that are conditionals stuck on a boolean or integer parameter; pairs of terms of five kinds under an opaque type constructor with one and two indexes): each member is well typed iff its two types / terms are convertible; and the late-hole family (5.9 k programs in which a parameter without annotation gets its type fixed under further binders and definition groups, is used at one or at two types, and is applied to an argument). For every program the real front end accepts, the elaborated term must be closed and the independent reference checker must derive for it a type convertible with the reported one. non-trivial = accepted programs confirmed by the reference"),
                assumptions: base_assumptions,
                evaluations: "evaluations",
                nontrivial: "nontrivial",
                states: None,
                transitions: None,
                traces: None,
                exhaustive: true,
                bounds,
                minimums: vec![("accepted", 50_000), ("rejected", 200_000), ("perturbations", 200_000), ("reference_confirms", 50_000), ("type_pair_programs", 40_000)],
            },
            Which::C04 => EvidenceSpec {
                level: "model_checking",
                rule: format!("{SPACE}States = terms reached by the real `step` from the elaborated term of every accepted program. In each of the first 25 states the reference checker must derive the reported type (subject reduction), and the final value must be canonical for the weak-head normal form of the reported type (int -> literal, bool -> true/false, function type -> lambda, type -> a type former). non-trivial = programs whose value was compared with its type"),
                assumptions: base_assumptions,
                evaluations: "evaluations",
                nontrivial: "nontrivial",
                states: Some("states"),
                transitions: Some("transitions"),
                traces: Some("traces_validated"),
                exhaustive: true,
                bounds,
                minimums: vec![("accepted", 50_000), ("value_inhabits_type", 30_000), ("traces_validated", 100_000)],
            },
            Which::C06 => EvidenceSpec {
                level: "model_checking",
                rule: "(i) every type-directed program and alias-family program of type int or bool whose evaluation terminates: the real normalize_weak_head of the elaborated term must be the literal the real step* reaches; (ii) in each of the first 30 states of those evaluator graphs (hole-free): the real unify(s, s), unify(s0, s) and unify(s_prev, s) must be true and leave the context empty; (iii) every ordered pair of the 420/1000 smallest closed hole-free type-directed terms of each goal type (with the implicit twins of the first functions and function types), of 62 terms whose operators are stuck on variables, and of 150 terms applying a variable to two and three convertible but differently written arguments: unify(a, b) = unify(b, a) = the reference's conversion verdict (pairs on which the reference runs out of fuel are skipped). non-trivial = programs compared under (i) + pairs compared under (iii)".to_owned(),
                assumptions: base_assumptions,
                evaluations: "evaluations",
                nontrivial: "nontrivial",
                states: Some("states"),
                transitions: Some("transitions"),
                traces: Some("traces_validated"),
                exhaustive: true,
                bounds,
                minimums: vec![("normal_form_equals_value", 10_000), ("traces_validated", 100_000), ("pairs_agree", 100_000)],
            },
        }
    }
}
