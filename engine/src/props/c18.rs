// C18 — checking under a context matches the closed program; contexts are restored.
//
// Contexts are obtained by peeling the outer binders of closed programs (parameters of lambdas and
// whole definition groups, up to three levels, so entries with offsets 0, 1, 2 are looked up from
// several depths) and are materialised exactly as the checker itself pushes them.
use crate::{
    bind,
    infra::{AbortVerdict, EvidenceSpec, Prop, Sweep, Tier, violation},
    model::{
        mterm::{M, R, mirror, rc, to_real},
        surface::{self, S},
        typing::{self, Conv},
    },
    props::{sem, semrun},
};
use serde_json::json;
use std::rc::Rc;

pub struct C18;

#[derive(Clone)]
pub enum Block {
    Param(Rc<str>, bool, R),
    Group(Vec<(Rc<str>, R, R)>),
}

// Peel up to `levels` outer binders.
pub fn peel(m: &M, levels: usize) -> (Vec<Block>, M) {
    let mut blocks = vec![];
    let mut cur = m.clone();
    for _ in 0..levels {
        match &cur {
            M::Lam(n, i, a, b) => {
                blocks.push(Block::Param(n.clone(), *i, a.clone()));
                let next = (**b).clone();
                cur = next;
            }
            M::Let(ds, b) => {
                blocks.push(Block::Group(ds.clone()));
                let next = (**b).clone();
                cur = next;
            }
            _ => break,
        }
    }
    (blocks, cur)
}

// Bind the blocks around a term again (a term of the body's kind).
pub fn wrap_term(blocks: &[Block], body: &M) -> M {
    let mut cur = body.clone();
    for b in blocks.iter().rev() {
        cur = match b {
            Block::Param(n, i, a) => M::Lam(n.clone(), *i, a.clone(), rc(cur)),
            Block::Group(ds) => M::Let(ds.clone(), rc(cur)),
        };
    }
    cur
}

// The closed type corresponding to an open type: (x : A) -> T per parameter, the group around T per
// group (in the reference, let-bound names are transparent, so this is T with the names unfolded).
pub fn wrap_type(blocks: &[Block], ty: &M) -> M {
    let mut cur = ty.clone();
    for b in blocks.iter().rev() {
        cur = match b {
            Block::Param(n, i, a) => M::Pi(n.clone(), *i, a.clone(), rc(cur)),
            Block::Group(ds) => M::Let(ds.clone(), rc(cur)),
        };
    }
    cur
}

type TypingCtx = Vec<(Rc<crate::term::Term<'static>>, usize)>;
type DefsCtx = Vec<Option<(Rc<crate::term::Term<'static>>, usize)>>;

// The pair of context vectors, with exactly the offsets the checker itself pushes.
pub fn materialise(blocks: &[Block]) -> (TypingCtx, DefsCtx) {
    let mut tc: TypingCtx = vec![];
    let mut dc: DefsCtx = vec![];
    for b in blocks {
        match b {
            Block::Param(_, _, a) => {
                tc.push((Rc::new(to_real(a, &mut Default::default())), 0));
                dc.push(None);
            }
            Block::Group(ds) => {
                let n = ds.len();
                for (i, (_, a, d)) in ds.iter().enumerate() {
                    tc.push((Rc::new(to_real(a, &mut Default::default())), n - i));
                    dc.push(Some((Rc::new(to_real(d, &mut Default::default())), n - i)));
                }
            }
        }
    }
    (tc, dc)
}

struct Snapshot {
    tc: Vec<(*const crate::term::Term<'static>, usize)>,
    dc: Vec<Option<(*const crate::term::Term<'static>, usize)>>,
}

fn snapshot(tc: &TypingCtx, dc: &DefsCtx) -> Snapshot {
    Snapshot {
        tc: tc.iter().map(|(t, o)| (Rc::as_ptr(t), *o)).collect(),
        dc: dc.iter().map(|e| e.as_ref().map(|(t, o)| (Rc::as_ptr(t), *o))).collect(),
    }
}

fn restored(s: &Snapshot, tc: &TypingCtx, dc: &DefsCtx) -> bool {
    let now = snapshot(tc, dc);
    now.tc == s.tc && now.dc == s.dc
}

fn check_open(text: &str, blocks: &[Block], body: &M, well_typed_expected: Option<bool>) {
    count!("open_terms");
    count!("evaluations");
    let closed = wrap_term(blocks, body);
    let (mut tc, mut dc) = materialise(blocks);
    let snap = snapshot(&tc, &dc);
    let real_body = to_real(body, &mut Default::default());
    let real_closed = to_real(&closed, &mut Default::default());
    let entries = tc.len();
    let describe = || format!("{text}: open term {} under {entries} context entries", body.show());
    // (1) type checking
    let open_r = bind::guard(|| crate::type_checker::type_check(None, "", &real_body, &mut tc, &mut dc));
    if !restored(&snap, &tc, &dc) {
        violation("contexts-not-restored-after-type-check", &describe(), "both context vectors exactly as before (length, entries, offsets)", &format!("typing context {} entries, definitions context {} entries", tc.len(), dc.len()));
        return;
    }
    let closed_r = bind::guard(|| {
        let (mut t0, mut d0) = (vec![], vec![]);
        crate::type_checker::type_check(None, "", &real_closed, &mut t0, &mut d0)
    });
    match (&open_r, &closed_r) {
        (Err(m), _) | (_, Err(m)) => {
            violation("type-check-panic", &describe(), "a verdict", m);
            return;
        }
        (Ok(o), Ok(c)) => {
            if o.is_ok() != c.is_ok() {
                violation(
                    "verdict-differs-from-closed-program",
                    &describe(),
                    &format!("closed program {}: accepted = {}", closed.show(), c.is_ok()),
                    &format!("open term: accepted = {}", o.is_ok()),
                );
                return;
            }
            if let Some(w) = well_typed_expected
                && w != o.is_ok()
            {
                count!("verdict_differs_from_generator_expectation");
            }
            match (o, c) {
                (Ok((_, open_ty)), Ok((_, closed_ty))) => {
                    count!("accepted_both");
                    let want = wrap_type(blocks, &mirror(open_ty));
                    match typing::convertible_closed(&mirror(closed_ty), &want, sem::TYPING_FUEL) {
                        Conv::Equal => {
                            count!("types_agree");
                            count!("nontrivial");
                        }
                        Conv::Unknown => count!("skipped_fuel"),
                        Conv::Different => {
                            violation("type-differs-from-closed-program", &describe(), &format!("closed type {} = the open type bound the same way", mirror(closed_ty).show()), &format!("open type {} i.e. {}", mirror(open_ty).show(), want.show()));
                            return;
                        }
                    }
                }
                _ => {
                    count!("rejected_both");
                    count!("nontrivial");
                }
            }
        }
    }
    // (2) normalisation under the context agrees with the closed counterpart. Conversion with general
    // recursion is only semi-decidable, so this part is judged only when the reference reaches the
    // full normal form of the closed term within fuel (no recursive function is unfolded forever).
    let normalises = {
        let mut ck = typing::Checker::new(20_000);
        let v = ck.eval(&typing::Env::Nil, &closed);
        let _ = ck.quote(0, &v);
        !ck.exhausted
    };
    if !normalises {
        count!("skipped_no_normal_form");
    }
    if normalises && open_r.as_ref().is_ok_and(|r| r.is_ok()) {
        let nf = bind::guard(|| crate::normalizer::normalize_weak_head(&real_body, &mut dc));
        if !restored(&snap, &tc, &dc) {
            violation("contexts-not-restored-after-normalize", &describe(), "definitions context as before", &format!("{} entries", dc.len()));
            return;
        }
        match nf {
            Err(m) => violation("normalize-panic", &describe(), "a term", &m),
            Ok(nf) => {
                let nf_m = mirror(&nf);
                match typing::convertible_closed(&wrap_term(blocks, &nf_m), &closed, sem::TYPING_FUEL) {
                    Conv::Equal => count!("normal_forms_agree"),
                    Conv::Unknown => count!("skipped_fuel"),
                    Conv::Different => {
                        violation("normal-form-differs-from-closed-counterpart", &describe(), &format!("a term convertible with {}", body.show()), &nf_m.show());
                        return;
                    }
                }
                // (3) unification under the context agrees with the closed counterpart
                let open_u = bind::guard(|| crate::unifier::unify(&real_body, &nf, &mut dc));
                if !restored(&snap, &tc, &dc) {
                    violation("contexts-not-restored-after-unify", &describe(), "definitions context as before", &format!("{} entries", dc.len()));
                    return;
                }
                let closed_nf = to_real(&wrap_term(blocks, &nf_m), &mut Default::default());
                let closed_u = bind::guard(|| crate::unifier::unify(&real_closed, &closed_nf, &mut vec![]));
                match (open_u, closed_u) {
                    (Ok(a), Ok(b)) => {
                        if a != b || !a {
                            violation("unify-differs-from-closed-counterpart", &describe(), "unify(t, nf(t)) = true under the context and for the closed terms", &format!("open: {a}, closed: {b}"));
                        } else {
                            count!("unify_agrees");
                        }
                    }
                    (Err(m), _) | (_, Err(m)) => violation("unify-panic", &describe(), "a verdict", &m),
                }
            }
        }
    }
}

// The closed programs that start with a binder or a group. Only the shared surface trees are kept;
// the text and the mirror term of a program are made when its case runs (the list has 1.5 M entries
// in the thorough tier, and every worker process holds it).
fn programs(tier: Tier) -> Rc<Vec<Rc<S>>> {
    programs_upto(sem::typed_size(tier))
}

fn programs_upto(nodes: usize) -> Rc<Vec<Rc<S>>> {
    let progs = sem::typed_programs(nodes);
    Rc::new(progs.iter().filter(|(_, s)| matches!(**s, S::Lam { .. } | S::Let { .. })).map(|(_, s)| s.clone()).collect())
}

// Text and mirror term of a program, if the real parser accepts it (its definition-order check rejects
// definitions that need their own value, on which type checking need not terminate).
fn program(s: &S) -> Option<(String, M)> {
    let m = surface::resolve(s, &[]).ok()?;
    let text = surface::print(s);
    bind::with_front(&text, &[], 2, |f| matches!(f, bind::Front::TypeErr { .. } | bind::Front::Ok { .. })).then_some((text, m))
}

fn peel_sweep(tier: Tier) -> Sweep {
    let ps = programs(tier);
    let p2 = ps.clone();
    Sweep::new(
        "closed programs peeled 1-3 binders deep, well typed and with every single-point perturbation of the open part",
        ps.len() as u64,
        move |idx| {
            let s = &ps[idx as usize];
            let Some((text, m)) = program(s) else { return };
            let (text, m) = (&text, &m);
            count!("programs");
            for levels in 1..=3 {
                let (blocks, body) = peel(m, levels);
                if blocks.len() < levels {
                    break;
                }
                if blocks.iter().any(|b| matches!(b, Block::Group(_))) {
                    count!("contexts_with_definitions");
                }
                check_open(text, &blocks, &body, Some(true));
            }
            // ill-typed variants: perturb the program, peel again; faults inside nested scopes make the
            // error path unwind through pushed entries
            if idx % 4 == 0 {
                for v in semrun::perturbations(s) {
                    let Ok(vm) = surface::resolve(&v, &[]) else { continue };
                    if sem::has_divergent_piece(&vm) {
                        continue;
                    }
                    let (blocks, body) = peel(&vm, 2);
                    // only the open part may be perturbed: the context has to stay well formed
                    let (orig_blocks, _) = peel(m, 2);
                    let same_context = blocks.len() == orig_blocks.len()
                        && blocks.iter().zip(&orig_blocks).all(|(x, y)| match (x, y) {
                            (Block::Param(_, i, a), Block::Param(_, j, b)) => i == j && a == b,
                            (Block::Group(d1), Block::Group(d2)) => d1 == d2,
                            _ => false,
                        });
                    if !blocks.is_empty() && same_context {
                        count!("perturbed_open_terms");
                        check_open(text, &blocks, &body, None);
                    }
                }
            }
            if idx % 9000 == 2 {
                crate::infra::sample("program", || json!(text));
            }
        },
        move |idx| surface::print(&p2[idx as usize]),
    )
    .with_post_abort(|_, kind| AbortVerdict::Violation {
        sub: "abnormal-ending".to_owned(),
        input: String::new(),
        expected: "a verdict (the programs are well typed or single-point perturbations of well-typed programs)".to_owned(),
        actual: kind.to_owned(),
    })
}

// The computed-annotation family: contexts in which the annotation of a binder is a type only after
// unfolding definitions (universe aliases, universe-valued functions, aliases of aliases), so that the
// checks a binder's domain goes through have to look entries up at the right depth. Every program is a
// prefix group, one to three binders annotated with names of the prefix, and a body.
pub fn computed_annotation_family() -> Vec<String> {
    let prefixes = [
        "aa : type = int",
        "uu : type = type; aa : uu = int",
        "uu : type = type; ff : (bool -> uu) = ((b : bool) => if b then int else bool); aa : uu = ff true",
        "kk : (type -> type) = ((c : type) => c); aa : (kk type) = int",
        "uu : type = type; vv : uu = uu; aa : vv = int",
        "uu : type = type; aa : uu = int; bb : uu = aa",
        "aa : uu = int; uu : type = type",
    ];
    let binders = [
        "(xx : aa) => ",
        "{xx : aa} => ",
        "(tt : type) => (xx : aa) => ",
        "(xx : aa) => (yy : aa) => ",
        "(xx : aa) => (gg : aa -> aa) => ",
        "(qq : (pp : aa) -> type) => (xx : aa) => ",
    ];
    let bodies = ["xx + 1", "xx", "(zz : aa = xx; zz + 1)", "(ww : aa) => xx + ww", "if xx < 1 then xx else 0", "(hh : (aa -> aa) = ((nn : aa) => nn + xx); hh 2)"];
    let mut out = vec![];
    for p in prefixes {
        for b in binders {
            for body in bodies {
                out.push(format!("{p}; {b}{body}"));
            }
        }
    }
    // Parameters whose type is an *implicit* function type, met by parameters over implicit and over
    // explicit function types: the type a context entry carries is the one that was written (the closed
    // program elaborates it on the way in, the caller of the open term supplies it as it is).
    let implicit_binders = [
        "(ff : {a : type} -> a -> a) => ",
        "(ff : {a : type} -> a -> a) => nn : int = 3; mm : int = nn + 1; ",
        "(tt : type) => (ff : {a : type} -> a -> tt) => ",
        "(ff : {a : type} -> {b : type} -> a -> b -> a) => ",
        "(ff : (a : type) -> a -> a) => ",
    ];
    let implicit_bodies = [
        "(gg : ({b : type} -> b -> b) -> int) => gg ff",
        "(gg : ((b : type) -> b -> b) -> int) => gg ff",
        "(hh : {c : type} -> c -> c) => if true then ff else hh",
        "(hh : (c : type) -> c -> c) => if true then ff else hh",
        "ff",
        // (no definition groups here: peeling would put an ill-typed definition into the context)
        "(gg : ({b : type} -> {c : type} -> b -> c -> b) -> int) => gg ff",
    ];
    for b in implicit_binders {
        for body in implicit_bodies {
            out.push(format!("{b}{body}"));
        }
    }
    out
}

fn computed_annotation_sweep() -> Sweep {
    let g = crate::model::grammar::Grammar::load();
    let fam = Rc::new(computed_annotation_family());
    let f2 = fam.clone();
    Sweep::new(
        "computed-annotation family peeled 1-4 binders deep",
        fam.len() as u64,
        move |idx| {
            let text = &fam[idx as usize];
            let Some(m) = surface::parse_text(&g, text).and_then(|s| surface::resolve(&s, &[]).ok()) else {
                crate::infra::machinery(&format!("computed-annotation program is not read by the grammar / scope model: {text}"));
                return;
            };
            count!("programs");
            count!("computed_annotation_programs");
            for levels in 1..=4 {
                let (blocks, body) = peel(&m, levels);
                if blocks.len() < levels {
                    break;
                }
                count!("contexts_with_definitions");
                check_open(text, &blocks, &body, None);
            }
        },
        move |idx| f2[idx as usize].clone(),
    )
    .with_post_abort(|_, kind| AbortVerdict::Violation {
        sub: "abnormal-ending".to_owned(),
        input: String::new(),
        expected: "a verdict".to_owned(),
        actual: kind.to_owned(),
    })
}

// For C12: holed patterns against instances under contexts with parameters and definitions.
pub fn unify_under_context_sweep(tier: Tier) -> Sweep {
    // the first 6000 / 40000 programs are the small ones: the list one size down holds them all
    let ps = programs_upto(sem::typed_size(tier) - 1);
    let limit = (ps.len() as u64).min(tier.pick(6000, 40_000));
    let p2 = ps.clone();
    Sweep::new(
        "holed patterns against instances under contexts with parameters and definitions",
        limit,
        move |idx| {
            let Some((text, m)) = program(&ps[idx as usize]) else { return };
            let (text, m) = (&text, &m);
            count!("programs");
            if crate::findings::is_known("F-HOLE-COPY") && crate::props::c12::has_recursive_definition(m) {
                count!("skipped_recursive_instances");
                return;
            }
            let (blocks, body) = peel(m, 2);
            if blocks.is_empty() || matches!(body, M::Var(..) | M::Lit(_) | M::True | M::False | M::Type | M::Int | M::Bool) {
                return;
            }
            let (_, mut dc) = materialise(&blocks);
            let base = dc.len();
            // punch a hole at the root's children: replace each immediate subterm by a hole
            let candidates: Vec<M> = match &body {
                M::App(f, a) => vec![M::App(rc(M::Hole(0, 0)), a.clone()), M::App(f.clone(), rc(M::Hole(0, 0)))],
                M::Bin(o, a, b) => vec![M::Bin(*o, rc(M::Hole(0, 0)), b.clone()), M::Bin(*o, a.clone(), rc(M::Hole(0, 0)))],
                M::If(c, t, e) => vec![M::If(c.clone(), rc(M::Hole(0, 0)), e.clone()), M::If(c.clone(), t.clone(), rc(M::Hole(0, 0)))],
                M::Lam(n, i, a, b) => vec![M::Lam(n.clone(), *i, a.clone(), rc(M::Hole(0, 1))), M::Lam(n.clone(), *i, a.clone(), rc(M::Hole(0, 0)))],
                _ => vec![M::Hole(0, 0)],
            };
            for pat in candidates {
                count!("unify_calls");
                count!("evaluations");
                let mut cells = Default::default();
                let (rp, ri) = (to_real(&pat, &mut cells), to_real(&body, &mut cells));
                let copies = crate::verif_hooks::hole_copies();
                let r = bind::guard(|| crate::unifier::unify(&rp, &ri, &mut dc));
                let copied = crate::verif_hooks::hole_copies() > copies;
                let d = || format!("{text}: unify({}, {}) under {base} context entries", pat.show(), body.show());
                if dc.len() != base {
                    violation("context-not-restored", &d(), &format!("{base} entries"), &format!("{}", dc.len()));
                    return;
                }
                match r {
                    Err(m) => violation("unify-panic", &d(), "a verdict", &m),
                    Ok(false) => count!("unify_false"),
                    Ok(true) => {
                        count!("unify_true");
                        count!("under_context_true");
                        // scope: the solution may mention context variables and nothing else
                        let (sp, si) = (mirror(&rp), mirror(&ri));
                        match typing::convertible_closed(&wrap_term(&blocks, &sp), &wrap_term(&blocks, &si), sem::TYPING_FUEL) {
                            Conv::Equal => {
                                count!("consistent");
                                count!("nontrivial");
                            }
                            Conv::Unknown => count!("skipped_fuel"),
                            Conv::Different => {
                                if copied && crate::findings::is_known("F-HOLE-COPY") {
                                    crate::infra::known("F-HOLE-COPY", || d());
                                } else {
                                    violation("inconsistent-success", &d(), "convertible terms once the solution is filled in", &format!("{} vs {}", sp.show(), si.show()));
                                }
                            }
                        }
                    }
                }
            }
        },
        move |idx| surface::print(&p2[idx as usize]),
    )
}

// A hole that was solved in an outer scope, looked at from further in: `Unifier(cell := X, shift k)` under
// a context of up to four entries (type parameters, an integer parameter, the definitions t = int and
// u = bool) stands for X seen through k more entries. For every context, every k, and every X that lives
// in the first (length - k) entries (a variable of that prefix, int, bool, a function type over them):
// normalising the solved hole gives what normalising the shifted X gives, the two unify, and the context
// is as before. The entries the solution is shifted across are where a lookup done in the wrong scope
// lands on a neighbour.
fn solved_hole_sweep() -> Sweep {
    let entry = |k: usize, pos: usize| -> Block {
        let n = |s: &str| -> Rc<str> { Rc::from(format!("{s}{pos}")) };
        match k {
            0 => Block::Param(n("a"), false, rc(M::Type)),
            1 => Block::Group(vec![(n("t"), rc(M::Type), rc(M::Int))]),
            2 => Block::Group(vec![(n("u"), rc(M::Type), rc(M::Bool))]),
            _ => Block::Param(n("n"), false, rc(M::Int)),
        }
    };
    let mut contexts: Vec<Vec<usize>> = vec![];
    for len in 1..=4usize {
        for code in 0..4usize.pow(len as u32) {
            contexts.push((0..len).map(|i| (code / 4usize.pow(i as u32)) % 4).collect());
        }
    }
    let contexts = Rc::new(contexts);
    let c2 = contexts.clone();
    Sweep::new(
        "solved holes seen from deeper scopes under contexts of parameters and definitions",
        contexts.len() as u64,
        move |idx| {
            let ctx = &contexts[idx as usize];
            let blocks: Vec<Block> = ctx.iter().enumerate().map(|(i, k)| entry(*k, i)).collect();
            let len = ctx.len();
            for k in 0..=len {
                let home = len - k;
                let mut pool: Vec<M> = (0..home).map(|i| M::Var(Rc::from(format!("v{}", home - 1 - i)), i)).collect();
                pool.extend([M::Int, M::Bool]);
                let atoms = pool.clone();
                for a in atoms.iter().take(3) {
                    for b in atoms.iter().take(3) {
                        pool.push(M::Pi(Rc::from("x"), false, rc(a.clone()), rc(crate::model::mterm::shift(b, 0, 1).unwrap())));
                    }
                }
                for x in &pool {
                    count!("evaluations");
                    count!("solved_hole_problems");
                    let (_, mut dc) = materialise(&blocks);
                    let base = dc.len();
                    let mut cells: std::collections::HashMap<usize, Rc<std::cell::RefCell<Option<crate::term::Term<'static>>>>> = Default::default();
                    let hole = to_real(&M::Hole(0, k), &mut cells);
                    *cells[&0].borrow_mut() = Some(to_real(x, &mut Default::default()));
                    let shifted = crate::model::mterm::shift(x, 0, k as isize).unwrap();
                    let plain = to_real(&shifted, &mut Default::default());
                    let d = || format!("?0^{k} with ?0 := {} under the context {}", x.show(), wrap_term(&blocks, &M::Lit(0.into())).show());
                    let r = bind::guard(|| {
                        let a = crate::normalizer::normalize_weak_head(&hole, &mut dc);
                        let b = crate::normalizer::normalize_weak_head(&plain, &mut dc);
                        let u = crate::unifier::unify(&hole, &plain, &mut dc);
                        (mirror(&a), mirror(&b), u)
                    });
                    if dc.len() != base {
                        violation("contexts-not-restored-after-unify", &d(), &format!("{base} entries"), &format!("{}", dc.len()));
                        continue;
                    }
                    match r {
                        Err(m) => violation("panic", &d(), "a normal form", &m),
                        Ok((a, b, u)) => {
                            if !a.alpha_eq(&b) {
                                violation("normal-form-of-solved-hole-differs", &d(), &format!("the normal form of the solution seen from {k} entries further in: {}", b.show()), &a.show());
                            } else if !u {
                                violation("unify-differs-from-closed-program", &d(), "a solved hole unifies with its solution seen from the same scope", "false");
                            } else {
                                count!("solved_hole_ok");
                                count!("nontrivial");
                            }
                        }
                    }
                }
            }
        },
        move |idx| format!("context kinds {:?}", c2[idx as usize]),
    )
}

impl Prop for C18 {
    fn id(&self) -> &'static str {
        "C18"
    }
    fn sweeps(&self, tier: Tier) -> Vec<Sweep> {
        vec![peel_sweep(tier), computed_annotation_sweep(), solved_hole_sweep()]
    }
    fn evidence(&self, tier: Tier) -> EvidenceSpec {
        EvidenceSpec {
            level: "exploration",
            rule: "every closed type-directed program that starts with a lambda or a definition group is peeled one, two and three binders deep (contexts mixing plain parameters and groups of one and two definitions, i.e. entries with offsets 0, 1, 2 looked up from depths 0..5); the context vectors are built exactly as the checker pushes them and the real type_check, normalize_weak_head and unify are called on the open body; every fourth program additionally in every single-point perturbation (ill-typed open terms, faults inside nested scopes); plus the computed-annotation family (252 programs: a prefix group with universe aliases, universe-valued functions or aliases of aliases, one to three binders annotated with names of the prefix, six bodies) peeled one to four binders deep. Oracle: same verdict as the closed program; closed type convertible (reference) with the open type bound the same way; the weak-head normal form under the context convertible with the term; unify(t, nf t) true under the context and closed; after every call, accepted or rejected, both context vectors pointer-identical with the same offsets. evaluations = (context, open term) pairs; non-trivial = those whose verdict and type were compared The family also holds programs whose parameters have an implicit function type, met by parameters over implicit and over explicit function types (the type a context entry carries is the one that was written). Solved holes seen from deeper scopes: under every context of one to four entries (type parameters, an integer parameter, the definitions t = int and u = bool), for every shift k and every solution X living in the first (length - k) entries, normalising Unifier(cell := X, shift k) gives what normalising X shifted by k gives, and the two unify.".to_owned(),
            assumptions: vec!["reference conversion with fuel; contexts come from peeling well-typed programs, so they are well formed".to_owned()],
            evaluations: "evaluations",
            nontrivial: "nontrivial",
            states: None,
            transitions: None,
            traces: None,
            exhaustive: true,
            bounds: json!({"program_nodes": sem::typed_size(tier), "peel_depth": 3}),
            minimums: vec![("types_agree", 20_000), ("rejected_both", 5_000), ("computed_annotation_programs", 252), ("contexts_with_definitions", 5_000), ("normal_forms_agree", 20_000), ("unify_agrees", 20_000)],
        }
    }
}
