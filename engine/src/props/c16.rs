// C16 — printed terms read back as the same term.
use crate::{
    bind::{self, Front},
    enumerate::{Sentences, name_simple},
    infra::{EvidenceSpec, Prop, Sweep, Tier, violation},
    model::{
        grammar::Grammar,
        mterm::{M, free_vars, mirror},
        tok::{self, ALL28, K},
    },
    props::c07,
};
use serde_json::json;
use std::{cell::RefCell, rc::Rc};

pub struct C16;

// Equality of parser-produced terms up to what printing may legitimately lose: the identity and shift
// of unresolved holes, and the names of function-type parameters that do not occur in the codomain.
pub fn same_modulo_printing(a: &M, b: &M) -> bool {
    match (a, b) {
        (M::Hole(..), M::Hole(..)) => true,
        (M::Type, M::Type) | (M::Int, M::Int) | (M::Bool, M::Bool) | (M::True, M::True) | (M::False, M::False) => true,
        (M::Lit(x), M::Lit(y)) => x == y,
        (M::Var(n, i), M::Var(m, j)) => i == j && n == m,
        (M::Lam(n, i, a1, b1), M::Lam(m, j, a2, b2)) => n == m && i == j && same_modulo_printing(a1, a2) && same_modulo_printing(b1, b2),
        (M::Pi(n, i, a1, b1), M::Pi(m, j, a2, b2)) => {
            let mut fv = std::collections::BTreeSet::new();
            free_vars(b1, 0, &mut fv);
            let used = fv.contains(&0);
            (n == m || !used) && i == j && same_modulo_printing(a1, a2) && same_modulo_printing(b1, b2)
        }
        (M::App(a1, b1), M::App(a2, b2)) => same_modulo_printing(a1, a2) && same_modulo_printing(b1, b2),
        (M::Bin(o1, a1, b1), M::Bin(o2, a2, b2)) => o1 == o2 && same_modulo_printing(a1, a2) && same_modulo_printing(b1, b2),
        (M::Let(d1, b1), M::Let(d2, b2)) => {
            d1.len() == d2.len()
                && d1.iter().zip(d2).all(|((n, a, d), (m, c, e))| n == m && same_modulo_printing(a, c) && same_modulo_printing(d, e))
                && same_modulo_printing(b1, b2)
        }
        (M::Neg(x), M::Neg(y)) => same_modulo_printing(x, y),
        (M::If(a1, b1, c1), M::If(a2, b2, c2)) => {
            same_modulo_printing(a1, a2) && same_modulo_printing(b1, b2) && same_modulo_printing(c1, c2)
        }
        _ => false,
    }
}

// Finding F-PRINT-IMPLICIT-PI: an implicit function type whose variable does not occur in its codomain
// is printed as `{domain} -> codomain`, which is not in the grammar. The model of the defect: the term
// contains such a node, and the same term with exactly those nodes made explicit (where the printer
// uses the arrow syntax of the grammar) round-trips.
fn explicit_unused_implicit_pis(m: &M, changed: &mut usize) -> M {
    use crate::model::mterm::rc;
    let mut r = |x: &M| rc(explicit_unused_implicit_pis(x, changed));
    match m {
        M::Pi(n, true, a, b) => {
            let mut fv = std::collections::BTreeSet::new();
            free_vars(b, 0, &mut fv);
            let (a2, b2) = (r(a), r(b));
            if fv.contains(&0) {
                M::Pi(n.clone(), true, a2, b2)
            } else {
                *changed += 1;
                M::Pi(n.clone(), false, a2, b2)
            }
        }
        M::Pi(n, i, a, b) => M::Pi(n.clone(), *i, r(a), r(b)),
        M::Lam(n, i, a, b) => M::Lam(n.clone(), *i, r(a), r(b)),
        M::App(a, b) => M::App(r(a), r(b)),
        M::Bin(o, a, b) => M::Bin(*o, r(a), r(b)),
        M::Let(ds, b) => M::Let(ds.iter().map(|(n, a, d)| (n.clone(), r(a), r(d))).collect(), r(b)),
        M::Neg(a) => M::Neg(r(a)),
        M::If(a, b, c) => M::If(r(a), r(b), r(c)),
        _ => m.clone(),
    }
}

fn is_implicit_pi_defect(original: &M, context: &[&str]) -> bool {
    if !crate::findings::is_known("F-PRINT-IMPLICIT-PI") {
        return false;
    }
    let mut changed = 0;
    let modified = explicit_unused_implicit_pis(original, &mut changed);
    if changed == 0 {
        return false;
    }
    let real = crate::model::mterm::to_real(&modified, &mut Default::default());
    let Ok(printed) = bind::guard(|| real.to_string()) else { return false };
    bind::with_front(&printed, context, 2, |f| match f {
        Front::TypeErr { term: t2, .. } | Front::Ok { term: t2, .. } => same_modulo_printing(&modified, &mirror(t2)),
        _ => false,
    })
}

// Print a real parser-produced term, read it back in the same scope, compare.
pub fn round_trip(src: &str, term: &crate::term::Term, context: &[&str]) -> bool {
    let original = mirror(term);
    let ok = round_trip_inner(src, term, &original, context, true);
    ok
}

fn round_trip_inner(src: &str, term: &crate::term::Term, original: &M, context: &[&str], report: bool) -> bool {
    let original = original.clone();
    let printed = match bind::guard(|| term.to_string()) {
        Ok(p) => p,
        Err(m) => {
            violation("print-panic", src, "a string", &format!("panic: {m}"));
            return false;
        }
    };
    bind::with_front(&printed, context, 2, |f| match f {
        Front::Panic { stage, message } => {
            violation("reparse-panic", src, &original.show(), &format!("printed {printed:?}; panic in {stage}: {message}"));
            false
        }
        Front::TokenizeErr(e) | Front::ParseErr { errors: e, .. } => {
            if is_implicit_pi_defect(&original, context) {
                crate::infra::known("F-PRINT-IMPLICIT-PI", || format!("{src}  prints as  {printed}"));
                return false;
            }
            violation(
                "printed-text-rejected",
                src,
                &format!("the printed text parses back to {}", original.show()),
                &format!("printed {printed:?}; rejected: {}", crate::infra::clip(&bind::messages(&e).join(" | "), 300)),
            );
            false
        }
        Front::TypeErr { term: t2, .. } | Front::Ok { term: t2, .. } => {
            let back = mirror(t2);
            if same_modulo_printing(&original, &back) {
                true
            } else {
                violation("reads-back-differently", src, &original.show(), &format!("printed {printed:?}; read back as {}", back.show()));
                false
            }
        }
    })
}

fn sweep(name: &str, g: Grammar, min_len: usize, max_len: usize) -> Sweep {
    let sentences = Rc::new(RefCell::new(Sentences::new(g.clone(), min_len, max_len)));
    let total = sentences.borrow().total;
    let s2 = sentences.clone();
    let g2 = g.clone();
    Sweep::new(
        name,
        total,
        move |idx| {
            let tree = sentences.borrow_mut().tree(idx);
            let toks = name_simple(&g, &tree);
            let (src, ranges) = tok::layout(&toks);
            let real = tok::real_tokens(&src, &toks, &ranges);
            count!("evaluations");
            bind::with_tokens(&src, &real, &["u"], 2, |f| match f {
                Front::TypeErr { term, .. } | Front::Ok { term, .. } => {
                    if round_trip(&src, term, &["u"]) {
                        count!("round_trips");
                        if toks.len() >= 3 {
                            count!("nontrivial");
                        }
                        if src.contains('{') {
                            count!("with_implicit_binder");
                        }
                        if idx % 200_000 == 31 {
                            crate::infra::sample("round-trip", || json!({"source": src, "printed": term.to_string()}));
                        }
                    }
                }
                // Rejections of sentences are C07's business.
                _ => count!("not_parsed"),
            });
        },
        move |idx| {
            let tree = s2.borrow_mut().tree(idx);
            tok::layout(&name_simple(&g2, &tree)).0
        },
    )
}

// Programs whose variable uses refer to their own binders (all namings over a two-name pool): the
// printer's decisions that depend on where a variable occurs (dependent vs non-dependent function
// type) are only exercised by these.
fn named_sweep(name: &str, g: Grammar, min_len: usize, max_len: usize) -> Sweep {
    let sentences = Rc::new(RefCell::new(Sentences::new(g.clone(), min_len, max_len)));
    let total = sentences.borrow().total;
    let s2 = sentences.clone();
    let pool = ["a", "b"];
    Sweep::new(
        name,
        total,
        move |idx| {
            let tree = sentences.borrow_mut().tree(idx);
            let mut toks: Vec<tok::Tok> = tree.tokens().into_iter().map(tok::Tok::new).collect();
            let ids: Vec<usize> = toks.iter().enumerate().filter(|(_, t)| t.k == K::Identifier).map(|(i, _)| i).collect();
            if ids.len() > 10 {
                return;
            }
            for a in 0..(1usize << ids.len()) {
                for (bit, i) in ids.iter().enumerate() {
                    toks[*i] = tok::Tok::ident(pool[(a >> bit) & 1]);
                }
                let (src, ranges) = tok::layout(&toks);
                let real = tok::real_tokens(&src, &toks, &ranges);
                count!("evaluations");
                bind::with_tokens(&src, &real, &[], 2, |f| {
                    if let Front::TypeErr { term, .. } | Front::Ok { term, .. } = f {
                        count!("named_programs_parsed");
                        if round_trip(&src, term, &[]) {
                            count!("round_trips");
                            count!("named_round_trips");
                            count!("nontrivial");
                        }
                    }
                });
            }
        },
        move |idx| {
            let tree = s2.borrow_mut().tree(idx);
            format!("all namings over {{a, b}} of: {}", tok::layout(&tree.tokens().into_iter().map(tok::Tok::new).collect::<Vec<_>>()).0)
        },
    )
}

impl Prop for C16 {
    fn id(&self) -> &'static str {
        "C16"
    }
    fn sweeps(&self, tier: Tier) -> Vec<Sweep> {
        let g = Grammar::load();
        let mut v = vec![
            sweep("parse results of sentences, full alphabet", g.clone(), 1, tier.pick(5, 6)),
            sweep("parse results of sentences, class alphabet", g.restrict(&c07::class_alphabet(), &[]), 6, tier.pick(7, 9)),
        ];
        // named programs: class alphabet, binder forms, and function types over definition groups
        v.push(named_sweep("named programs, class alphabet", g.restrict(&c07::class_alphabet(), &[]), 1, tier.pick(6, 7)));
        v.push(named_sweep(
            "named programs, binder forms",
            g.restrict(&[K::Identifier, K::Type, K::LeftParen, K::RightParen, K::LeftCurly, K::RightCurly, K::Colon, K::ThickArrow, K::ThinArrow], &["let", "application"]),
            7,
            tier.pick(11, 13),
        ));
        v.push(named_sweep(
            "named programs, function types over definition groups",
            g.restrict(&[K::Identifier, K::Type, K::LeftParen, K::RightParen, K::Colon, K::Equals, K::Semicolon, K::ThinArrow], &["application", "lambda", "annotated_lambda"]),
            7,
            tier.pick(13, 15),
        ));
        for (name, sg) in c07::slices(&g) {
            if name == "let-in-binder-domain" {
                // small slice, pushed further: a let as a binder's domain needs 13 tokens
                v.push(sweep(&format!("parse results of sentences, slice {name}"), sg, 8, tier.pick(15, 17)));
            } else if name == "applications" {
                // parenthesised applicands and arguments that hold chains of their own: the printer drops
                // parentheses around a left-nested applicand, which needs 13 tokens to show
                v.push(sweep(&format!("parse results of sentences, slice {name}"), sg, tier.pick(8, 10), tier.pick(13, 14)));
            } else {
                v.push(sweep(&format!("parse results of sentences, slice {name}"), sg, tier.pick(8, 10), tier.pick(11, 13)));
            }
        }
        v
    }
    fn evidence(&self, tier: Tier) -> EvidenceSpec {
        EvidenceSpec {
            level: "exploration",
            rule: "every sentence of grammar.y up to the bounds (full alphabet, class alphabet, ten sub-grammar slices incl. all binder forms, let groups in annotation / domain positions, and application chains to 13/14 tokens) is parsed by the real parser — with simply named identifiers, and (class alphabet, binder forms, function types over definition groups) with every naming over a two-name pool so that variable uses refer to their own binders —; the resulting term is printed with its Display implementation, the text is tokenized and parsed again in the same scope, and the two terms must be equal up to names of unused function-type parameters and identity/shift of unresolved holes. non-trivial = sentences of at least 3 tokens that round-tripped".to_owned(),
            assumptions: vec!["only parser-produced terms are judged (printing of elaborated terms, where solved holes may repeat binder names, is outside the property)".to_owned()],
            evaluations: "evaluations",
            nontrivial: "nontrivial",
            states: None,
            transitions: None,
            traces: None,
            exhaustive: true,
            bounds: json!({"full_alphabet_max_tokens": tier.pick(5, 6), "class_alphabet_max_tokens": tier.pick(7, 9), "slices_max_tokens": tier.pick(11, 13)}),
            minimums: vec![("round_trips", 100_000), ("with_implicit_binder", 1_000), ("named_round_trips", 10_000)],
        }
    }
}
