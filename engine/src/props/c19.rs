// C19 — meaning-preserving rewrites change neither acceptance nor result.
//
// Explicit-state search over programs: states are program texts, transitions are applications of a
// rewrite at a site; breadth-first to a depth bound with dedup on the text. No reference model takes
// part in the comparison: every reachable program must behave like the initial one on the real code.
use crate::{
    bind::RunEnd,
    enumerate::typed::{Ty, mentions},
    infra::{AbortVerdict, EvidenceSpec, Prop, Sweep, Tier, violation},
    model::{
        mterm::{M, Op},
        surface::{self, S, bx},
    },
    props::sem::{self, FrontEnd},
};
use serde_json::json;
use std::{collections::HashSet, rc::Rc};

pub struct C19;

fn rename(s: &S, old: &str, new: &str) -> S {
    let r = |x: &Rc<S>| bx(rename(x, old, new));
    let n = |x: &String| if x == old { new.to_owned() } else { x.clone() };
    match s {
        S::Var(v) => S::Var(n(v)),
        S::Lam { name, implicit, ann, body } => S::Lam { name: n(name), implicit: *implicit, ann: ann.as_ref().map(r), body: r(body) },
        S::Pi { name, implicit, dom, cod } => S::Pi { name: name.as_ref().map(n), implicit: *implicit, dom: r(dom), cod: r(cod) },
        S::App(a, b) => S::App(r(a), r(b)),
        S::Let { name, ann, def, body } => S::Let { name: n(name), ann: ann.as_ref().map(r), def: r(def), body: r(body) },
        S::Neg(a) => S::Neg(r(a)),
        S::Bin(o, a, b) => S::Bin(*o, r(a), r(b)),
        S::If(a, b, c) => S::If(r(a), r(b), r(c)),
        S::Paren(a) => S::Paren(r(a)),
        other => other.clone(),
    }
}

// Rename the k-th binder (in the order of `binder_names`) and the variables it binds.
fn rename_binder(s: &S, k: usize, next: &mut usize, new: &str) -> Option<S> {
    let unsupported = std::cell::Cell::new(false);
    let v = rename_binder_inner(s, k, next, new, &unsupported);
    if unsupported.get() { None } else { Some(v) }
}

fn rename_binder_inner(s: &S, k: usize, next: &mut usize, new: &str, unsupported: &std::cell::Cell<bool>) -> S {
    let mut r = |x: &Rc<S>, next: &mut usize| bx(rename_binder_inner(x, k, next, new, unsupported));
    match s {
        S::Lam { name, implicit, ann, body } => {
            let me = *next;
            *next += 1;
            let ann2 = ann.as_ref().map(|a| r(a, next));
            if me == k {
                // the binder scopes over the body only
                let mut n2 = *next;
                let mut names = vec![];
                binder_names(body, &mut names);
                n2 += names.len();
                *next = n2;
                S::Lam { name: new.to_owned(), implicit: *implicit, ann: ann2, body: bx(rename(body, name, new)) }
            } else {
                S::Lam { name: name.clone(), implicit: *implicit, ann: ann2, body: r(body, next) }
            }
        }
        S::Pi { name, implicit, dom, cod } => {
            let me = if name.is_some() {
                *next += 1;
                Some(*next - 1)
            } else {
                None
            };
            let dom2 = r(dom, next);
            if me == Some(k) {
                let mut names = vec![];
                binder_names(cod, &mut names);
                *next += names.len();
                let old = name.clone().unwrap();
                S::Pi { name: Some(new.to_owned()), implicit: *implicit, dom: dom2, cod: bx(rename(cod, &old, new)) }
            } else {
                S::Pi { name: name.clone(), implicit: *implicit, dom: dom2, cod: r(cod, next) }
            }
        }
        S::Let { name, ann, def, body } => {
            let me = *next;
            *next += 1;
            if me == k {
                // a member of a group scopes over the whole group (also over the enclosing lets of the
                // same spine); only uniquely named members are renamed (see the caller)
                unsupported.set(true);
                s.clone()
            } else {
                let ann2 = ann.as_ref().map(|a| r(a, next));
                let def2 = r(def, next);
                S::Let { name: name.clone(), ann: ann2, def: def2, body: r(body, next) }
            }
        }
        S::App(a, b) => {
            let a2 = r(a, next);
            S::App(a2, r(b, next))
        }
        S::Bin(o, a, b) => {
            let a2 = r(a, next);
            S::Bin(*o, a2, r(b, next))
        }
        S::Neg(a) => S::Neg(r(a, next)),
        S::Paren(a) => S::Paren(r(a, next)),
        S::If(a, b, c) => {
            let a2 = r(a, next);
            let b2 = r(b, next);
            S::If(a2, b2, r(c, next))
        }
        other => other.clone(),
    }
}

fn binder_names(s: &S, out: &mut Vec<String>) {
    match s {
        S::Lam { name, ann, body, .. } => {
            out.push(name.clone());
            if let Some(a) = ann {
                binder_names(a, out);
            }
            binder_names(body, out);
        }
        S::Pi { name, dom, cod, .. } => {
            if let Some(n) = name {
                out.push(n.clone());
            }
            binder_names(dom, out);
            binder_names(cod, out);
        }
        S::Let { name, ann, def, body } => {
            out.push(name.clone());
            if let Some(a) = ann {
                binder_names(a, out);
            }
            binder_names(def, out);
            binder_names(body, out);
        }
        S::App(a, b) | S::Bin(_, a, b) => {
            binder_names(a, out);
            binder_names(b, out);
        }
        S::Neg(a) | S::Paren(a) => binder_names(a, out),
        S::If(a, b, c) => {
            binder_names(a, out);
            binder_names(b, out);
            binder_names(c, out);
        }
        _ => {}
    }
}

// All results of applying `f` at exactly one subterm position (f returns the replacements for that
// subterm; `in_let_body` tells whether the position is the body of a let).
fn at_each_position(s: &S, in_let_body: bool, f: &dyn Fn(&S, bool) -> Vec<S>) -> Vec<S> {
    let mut out = f(s, in_let_body);
    let mut with = |make: &dyn Fn(S) -> S, child: &S, lb: bool| {
        for c in at_each_position(child, lb, f) {
            out.push(make(c));
        }
    };
    match s {
        S::Lam { name, implicit, ann, body } => {
            with(&|c| S::Lam { name: name.clone(), implicit: *implicit, ann: ann.clone(), body: bx(c) }, body, false);
        }
        S::App(a, b) => {
            with(&|c| S::App(bx(c), b.clone()), a, false);
            with(&|c| S::App(a.clone(), bx(c)), b, false);
        }
        S::Bin(o, a, b) => {
            with(&|c| S::Bin(*o, bx(c), b.clone()), a, false);
            with(&|c| S::Bin(*o, a.clone(), bx(c)), b, false);
        }
        S::Let { name, ann, def, body } => {
            with(&|c| S::Let { name: name.clone(), ann: ann.clone(), def: bx(c), body: body.clone() }, def, false);
            with(&|c| S::Let { name: name.clone(), ann: ann.clone(), def: def.clone(), body: bx(c) }, body, true);
        }
        S::Neg(a) => with(&|c| S::Neg(bx(c)), a, false),
        S::Paren(a) => with(&|c| S::Paren(bx(c)), a, false),
        S::If(a, b, c3) => {
            with(&|c| S::If(bx(c), b.clone(), c3.clone()), a, false);
            with(&|c| S::If(a.clone(), bx(c), c3.clone()), b, false);
            with(&|c| S::If(a.clone(), b.clone(), bx(c)), c3, false);
        }
        _ => {}
    }
    out
}

// Does the subterm certainly have type int (resp. bool), judging by its head?
fn int_typed(s: &S) -> bool {
    matches!(s, S::Lit(_) | S::Neg(_) | S::Bin(Op::Add | Op::Sub | Op::Mul | Op::Div, ..))
}
fn bool_typed(s: &S) -> bool {
    matches!(s, S::True | S::False | S::Bin(Op::Lt | Op::Le | Op::Eq | Op::Gt | Op::Ge, ..))
}

// A function literal, possibly in parentheses.
fn is_function(s: &S) -> bool {
    match s {
        S::Lam { .. } => true,
        S::Paren(a) => is_function(a),
        _ => false,
    }
}

pub fn rewrites(s: &S, goal: &Ty, fresh: usize, light: bool) -> Vec<(&'static str, S)> {
    let mut out: Vec<(&'static str, S)> = vec![];
    let f = |tag: &str| format!("{tag}{fresh}");
    // R1: consistently rename one bound variable (the k-th binder and the occurrences it binds)
    let mut names = vec![];
    binder_names(s, &mut names);
    for k in 0..names.len() {
        if names[k] == "_" {
            continue;
        }
        let new = format!("{}r{fresh}", names[k]);
        if names.iter().filter(|n| **n == names[k]).count() == 1 {
            // bound once in the whole program: renaming by name is renaming that binder
            out.push(("R1-rename", rename(s, &names[k], &new)));
        } else if let Some(v) = rename_binder(s, k, &mut 0, &new) {
            // bound several times (in separate scopes): rename the k-th binder only
            out.push(("R1-rename-one-binder", v));
        }
    }
    // R2: redundant parentheses around any subexpression (a let in let-body position is a group
    // boundary, so it is left alone). `light` (used for the larger family programs): whole-program
    // rewrites only.
    for v in if light { vec![] } else { at_each_position(s, false, &|t, in_let_body| {
        if matches!(t, S::Paren(_)) || (in_let_body && matches!(t, S::Let { .. })) { vec![] } else { vec![S::Paren(bx(t.clone()))] }
    }) } {
        out.push(("R2-parentheses", v));
    }
    // R3: an unused definition (value and non-value) in front of the program and at the end of the
    // outermost group
    for (def, ann) in [(S::Lit("0".into()), S::Int), (S::Bin(Op::Add, bx(S::Lit("1".into())), bx(S::Lit("1".into()))), S::Int), (S::Bool, S::Type)] {
        out.push(("R3-unused-definition-front", S::Let { name: f("u"), ann: Some(bx(ann.clone())), def: bx(def.clone()), body: bx(s.clone()) }));
        // at the end of the outermost group
        fn at_end(s: &S, name: &str, ann: &S, def: &S) -> Option<S> {
            match s {
                S::Let { name: n, ann: a, def: d, body } => {
                    let inner = at_end(body, name, ann, def).unwrap_or_else(|| S::Let { name: name.to_owned(), ann: Some(bx(ann.clone())), def: bx(def.clone()), body: body.clone() });
                    Some(S::Let { name: n.clone(), ann: a.clone(), def: d.clone(), body: bx(inner) })
                }
                _ => None,
            }
        }
        if let Some(v) = at_end(s, &f("e"), &ann, &def) {
            out.push(("R3-unused-definition-end", v));
        }
    }
    // R3 inside: an unused value definition at the end of every group of the program, nested ones
    // included (a group of one definition becomes a group of two)
    for v in at_each_position(s, false, &|t, in_let_body| {
        if in_let_body || !matches!(t, S::Let { .. }) {
            return vec![];
        }
        fn append(s: &S, name: &str) -> S {
            match s {
                S::Let { name: n, ann, def, body } if matches!(**body, S::Let { .. }) => S::Let { name: n.clone(), ann: ann.clone(), def: def.clone(), body: bx(append(body, name)) },
                S::Let { name: n, ann, def, body } => S::Let {
                    name: n.clone(),
                    ann: ann.clone(),
                    def: def.clone(),
                    body: bx(S::Let { name: name.to_owned(), ann: Some(bx(S::Int)), def: bx(S::Lit("0".into())), body: body.clone() }),
                },
                other => other.clone(),
            }
        }
        vec![append(t, &format!("i{fresh}"))]
    }) {
        out.push(("R3-unused-definition-inside", v));
    }
    // R4: name a subexpression with a definition (strict positions: the whole program, and any
    // int/bool-typed subexpression that is not under a binder or in a branch — here: the whole program)
    out.push(("R4-name-program", S::Let { name: f("n"), ann: Some(bx(goal.expr())), def: bx(s.clone()), body: bx(S::Var(f("n"))) }));
    // R5: wrap in an immediately applied annotated identity function; R6: wrap in `if true then e else e`
    // at the whole program and at every subexpression whose head fixes its type
    out.push(("R5-identity", S::App(bx(S::Lam { name: f("w"), implicit: false, ann: Some(bx(goal.expr())), body: bx(S::Var(f("w"))) }), bx(s.clone()))));
    out.push(("R6-if-true", S::If(bx(S::True), bx(s.clone()), bx(s.clone()))));
    for v in if light { vec![] } else { at_each_position(s, false, &|t, _| {
        let ty = if int_typed(t) {
            S::Int
        } else if bool_typed(t) {
            S::Bool
        } else {
            return vec![];
        };
        vec![
            S::App(bx(S::Lam { name: format!("w{fresh}"), implicit: false, ann: Some(bx(ty)), body: bx(S::Var(format!("w{fresh}"))) }), bx(t.clone())),
            S::If(bx(S::True), bx(t.clone()), bx(t.clone())),
        ]
    }) } {
        out.push(("R5/R6-inner", v));
    }
    // R3 / R4 / R5 / R6 at an annotated definition: its right-hand side gets an unused local definition,
    // is named by a local definition, is wrapped in an identity function annotated with the type the
    // definition is declared to have, or in `if true`. (The declared type is known, whatever it is: a
    // dependent or an implicit function type, a computed type.)
    for v in at_each_position(s, false, &|t, _| {
        let S::Let { name, ann: Some(ann), def, body } = t else { return vec![] };
        if matches!(**def, S::Paren(_)) {
            return vec![];
        }
        let wrap = |d: S| S::Let { name: name.clone(), ann: Some(ann.clone()), def: bx(S::Paren(bx(d))), body: body.clone() };
        vec![
            wrap(S::Let { name: format!("q{fresh}"), ann: Some(bx(S::Int)), def: bx(S::Lit("7".into())), body: def.clone() }),
            wrap(S::Let { name: format!("k{fresh}"), ann: Some(ann.clone()), def: def.clone(), body: bx(S::Var(format!("k{fresh}"))) }),
            wrap(S::App(bx(S::Lam { name: format!("w{fresh}"), implicit: false, ann: Some(ann.clone()), body: bx(S::Var(format!("w{fresh}"))) }), bx(S::Paren(def.clone())))),
            wrap(S::If(bx(S::True), def.clone(), def.clone())),
            // R4 on the annotation: the declared type named by a definition placed just before
            S::Let {
                name: format!("t{fresh}"),
                ann: Some(bx(S::Type)),
                def: ann.clone(),
                body: bx(S::Let { name: name.clone(), ann: Some(bx(S::Var(format!("t{fresh}")))), def: def.clone(), body: body.clone() }),
            },
        ]
    }) {
        out.push(("R3/R4/R5/R6-definition", v));
    }
    // R7: swap two function definitions of a group (adjacent or not) that do not mention each other.
    // Only the two functions move; the evaluation order of everything else in the group is unchanged.
    for v in at_each_position(s, false, &|t, in_let_body| {
        // a group is visited once, from its first definition
        if in_let_body || !matches!(t, S::Let { .. }) {
            return vec![];
        }
        let mut spine: Vec<(&String, &Option<Rc<S>>, &Rc<S>)> = vec![];
        let mut cur = t;
        while let S::Let { name, ann, def, body } = cur {
            spine.push((name, ann, def));
            cur = body;
        }
        let group_body = cur;
        let mut out = vec![];
        for i in 0..spine.len() {
            for j in i + 1..spine.len() {
                let ((n1, a1, d1), (n2, a2, d2)) = (spine[i], spine[j]);
                if is_function(d1)
                    && is_function(d2)
                    && !mentions(d1, n2)
                    && !mentions(d2, n1)
                    && !a1.as_ref().is_some_and(|a| mentions(a, n2))
                    && !a2.as_ref().is_some_and(|a| mentions(a, n1))
                {
                    let mut order: Vec<usize> = (0..spine.len()).collect();
                    order.swap(i, j);
                    let mut acc = group_body.clone();
                    for k in order.into_iter().rev() {
                        let (n, a, d) = spine[k];
                        acc = S::Let { name: n.clone(), ann: a.clone(), def: d.clone(), body: bx(acc) };
                    }
                    out.push(acc);
                }
            }
        }
        out
    }) {
        out.push(("R7-swap-definitions", v));
    }
    out
}

#[derive(Clone, PartialEq, Eq, Debug)]
pub enum Behaviour {
    Rejected(&'static str),
    Value(String),
    Stuck,
    Running,
    Panic(String),
}

pub fn behaviour(text: &str, horizon: usize) -> Behaviour {
    sem::front_end(text, |f| match f {
        FrontEnd::Panic { message, .. } => Behaviour::Panic(message),
        FrontEnd::Rejected { stage, .. } => Behaviour::Rejected(stage),
        FrontEnd::Accepted(acc) => {
            let r = sem::evaluator_graph(acc.elab_real, horizon, |_, _, _| {});
            match r.end {
                RunEnd::Value => Behaviour::Value(match &r.last {
                    M::Lam(..) => "<function>".to_owned(),
                    M::Pi(..) => "<function type>".to_owned(),
                    v => v.show(),
                }),
                RunEnd::Stuck => Behaviour::Stuck,
                RunEnd::Horizon => Behaviour::Running,
                RunEnd::Panic(m) => Behaviour::Panic(m),
            }
        }
    })
}

// The rewritten program is rejected by the definition-order check alone, and the reference model of
// that rule agrees that the program breaks it.
fn rejected_by_the_order_rule(s: &S, text: &str) -> bool {
    let order_only = sem::front_end(text, |f| matches!(f, FrontEnd::Rejected { order_only: true, .. }));
    order_only && surface::resolve(s, &[]).is_ok_and(|m| sem::order_rule_violated(&m))
}

fn stuck_by_order_value(text: &str, horizon: usize) -> bool {
    sem::front_end(text, |f| match f {
        FrontEnd::Accepted(acc) => {
            let r = sem::evaluator_graph(acc.elab_real, horizon, |_, _, _| {});
            matches!(r.end, RunEnd::Stuck) && crate::props::semrun::is_order_value_stuck(&r.last)
        }
        _ => false,
    })
}

// Finding F-HOLE-COPY seen through a rewrite: the rewritten program is rejected by the type checker, the
// source has parameters without annotation, `open` copied an unresolved hole while the rewritten program
// was checked (hook H2), and the violation disappears when the holes are written out: the rewritten
// program with every un-annotated parameter annotated by the type the checker inferred for it in the
// *initial* program is accepted and behaves like the initial program.
fn is_hole_copy_rejection(text0: &str, rewritten: &S, b0: &Behaviour, horizon: usize) -> bool {
    if !crate::findings::is_known("F-HOLE-COPY") {
        return false;
    }
    // the inferred parameter types of the initial program, by binder name
    let mut inferred: std::collections::HashMap<String, S> = std::collections::HashMap::new();
    fn collect(m: &M, out: &mut std::collections::HashMap<String, S>) {
        match m {
            M::Lam(n, _, a, b) => {
                if sem::is_closed(a) && !a.has_hole() {
                    out.insert(n.to_string(), sem::m_to_s(a, &mut vec![]));
                }
                collect(a, out);
                collect(b, out);
            }
            M::Pi(_, _, a, b) | M::App(a, b) | M::Bin(_, a, b) => {
                collect(a, out);
                collect(b, out);
            }
            M::Let(ds, b) => {
                for (_, a, d) in ds {
                    collect(a, out);
                    collect(d, out);
                }
                collect(b, out);
            }
            M::Neg(a) => collect(a, out),
            M::If(a, b, c) => {
                collect(a, out);
                collect(b, out);
                collect(c, out);
            }
            _ => {}
        }
    }
    let had_holes = sem::front_end(text0, |f| match f {
        FrontEnd::Accepted(acc) => {
            collect(&acc.elab, &mut inferred);
            acc.source_has_holes
        }
        _ => false,
    });
    if !had_holes || inferred.is_empty() {
        return false;
    }
    let copies = crate::verif_hooks::hole_copies();
    let rejected = matches!(behaviour(&surface::print(rewritten), horizon), Behaviour::Rejected("type_check"));
    if !rejected || crate::verif_hooks::hole_copies() == copies {
        return false;
    }
    fn annotate(s: &S, inferred: &std::collections::HashMap<String, S>, changed: &mut bool) -> S {
        let r = |x: &Rc<S>, changed: &mut bool| bx(annotate(x, inferred, changed));
        match s {
            S::Lam { name, implicit, ann, body } => {
                let ann = match ann {
                    None if inferred.contains_key(name) => {
                        *changed = true;
                        Some(bx(inferred[name].clone()))
                    }
                    None => None,
                    Some(a) => Some(r(a, changed)),
                };
                S::Lam { name: name.clone(), implicit: *implicit, ann, body: r(body, changed) }
            }
            S::Pi { name, implicit, dom, cod } => S::Pi { name: name.clone(), implicit: *implicit, dom: r(dom, changed), cod: r(cod, changed) },
            S::App(a, b) => S::App(r(a, changed), r(b, changed)),
            S::Let { name, ann, def, body } => S::Let { name: name.clone(), ann: ann.as_ref().map(|a| r(a, changed)), def: r(def, changed), body: r(body, changed) },
            S::Neg(a) => S::Neg(r(a, changed)),
            S::Bin(o, a, b) => S::Bin(*o, r(a, changed), r(b, changed)),
            S::If(a, b, c) => S::If(r(a, changed), r(b, changed), r(c, changed)),
            S::Paren(a) => S::Paren(r(a, changed)),
            other => other.clone(),
        }
    }
    let mut changed = false;
    let annotated = annotate(rewritten, &inferred, &mut changed);
    changed && behaviour(&surface::print(&annotated), horizon) == *b0
}

fn search(initial: &S, goal: &Ty, depth: usize, horizon: usize, light: bool) {
    let text0 = surface::print(initial);
    let b0 = behaviour(&text0, horizon);
    if !matches!(b0, Behaviour::Value(_)) {
        count!("initial_programs_without_value");
        return;
    }
    count!("initial_programs");
    let mut seen: HashSet<String> = HashSet::new();
    seen.insert(text0.clone());
    let mut frontier: Vec<(S, Vec<&'static str>)> = vec![(initial.clone(), vec![])];
    count!("states");
    for d in 0..depth {
        let mut next = vec![];
        for (s, path) in &frontier {
            for (name, t) in rewrites(s, goal, d, light) {
                count!("transitions");
                let text = surface::print(&t);
                if !seen.insert(text.clone()) {
                    continue;
                }
                count!("states");
                let b = behaviour(&text, horizon * 4);
                let mut p = path.clone();
                p.push(name);
                if b == b0 {
                    count!("traces_validated");
                    next.push((t, p));
                } else if matches!(b, Behaviour::Rejected("parse"))
                    && (name == "R5/R6-inner" || name == "R3/R4/R5/R6-definition")
                    && crate::findings::is_known("F-ORDER-SYNTACTIC")
                    && rejected_by_the_order_rule(&t, &text)
                {
                    // Wrapping a definition that is a value (so available to the whole group) in an
                    // applied identity function or a conditional makes it a computed definition; an
                    // earlier computed definition that uses it then breaks the (syntactic)
                    // definition-order rule and the program is rejected. Not expanded further.
                    crate::infra::known("F-ORDER-SYNTACTIC", || format!("{text0}   --{}-->   {text}", p.join(", ")));
                } else if matches!(b, Behaviour::Rejected("type_check")) && is_hole_copy_rejection(&text0, &t, &b0, horizon * 4) {
                    // F-HOLE-COPY seen through a rewrite (the violation disappears when the holes are written
                    // out). Not expanded further.
                    crate::infra::known("F-HOLE-COPY", || format!("{text0}   --{}-->   {text}", p.join(", ")));
                } else if b == Behaviour::Stuck && crate::findings::is_known("F-ORDER-VALUE") && stuck_by_order_value(&text, horizon * 4) {
                    // (F-ORDER-VALUE is repaired; the classifier stays so that a regression is named.)
                    // The rewritten program is accepted and then needs a function that is defined later
                    // in its group: the known defect of the definition-order check (C01), seen here as a
                    // reordering that changes behaviour. Not expanded further.
                    crate::infra::known("F-ORDER-VALUE", || format!("{text0}   --{}-->   {text}", p.join(", ")));
                } else {
                    violation(
                        &format!("rewrite-changes-behaviour-{name}"),
                        &format!("{text0}   --{}-->   {text}", p.join(", ")),
                        &format!("{b0:?} (the behaviour of the initial program)"),
                        &format!("{b:?}"),
                    );
                    return;
                }
            }
        }
        frontier = next;
    }
    count!("nontrivial");
}

fn bfs_sweep(name: &str, tier: Tier, min_size: usize, max_size: usize, depth: usize) -> Sweep {
    let all = sem::typed_programs(max_size);
    let lo = if min_size > 1 { sem::typed_programs_count(min_size - 1) } else { 0 };
    let progs: Rc<Vec<(Ty, Rc<S>)>> = Rc::new(all.iter().skip(lo).filter(|(t, _)| matches!(t, Ty::Int | Ty::Bool | Ty::Type)).cloned().collect());
    let p2 = progs.clone();
    let horizon = tier.pick(300, 2000);
    Sweep::new(
        name,
        progs.len() as u64,
        move |idx| {
            let (goal, s) = &progs[idx as usize];
            count!("evaluations");
            search(s, goal, depth, horizon, false);
            if idx % 3000 == 1 {
                crate::infra::sample("initial-program", || json!(surface::print(s)));
            }
        },
        move |idx| surface::print(&p2[idx as usize].1),
    )
    .with_post_abort(|_, kind| AbortVerdict::Violation {
        sub: "abnormal-ending".to_owned(),
        input: String::new(),
        expected: "the behaviour of the initial program (which evaluates to a value)".to_owned(),
        actual: kind.to_owned(),
    })
}

// The nested-group family as initial states (read with the grammar model, so that the rewrites can be
// applied to its surface trees).
fn family_sweep(tier: Tier) -> Sweep {
    let g = crate::model::grammar::Grammar::load();
    let mut texts = sem::nested_family();
    // values with implicit binders, stored under annotations that spell out the implicit function type
    for p in [
        "id : ({a : type} -> a -> a) = {a : type} => (x : a) => x; kopie : ({b : type} -> b -> b) = id; dd : (int -> int) = (n : int) => n + n; dd 20 + 2",
        "id : ({a : type} -> a -> a) = {a : type} => (x : a) => x; 42",
        "pick : ((a : type) -> {x : a} -> a -> a) = (a : type) => {x : a} => (y : a) => y; 7",
        "t : type = {a : type} -> a -> a; ff : (t -> int) = (g : t) => 3; id : t = {a : type} => (x : a) => x; ff id",
        "ff : (({a : type} -> a -> a) -> int) = (g : {a : type} -> a -> a) => 3; ff ({b : type} => (x : b) => x)",
        "dep : ((a : type) -> (p : a -> type) -> (x : a) -> (h : (y : a) -> p y) -> p x) = (a : type) => (p : a -> type) => (x : a) => (h : (y : a) -> p y) => h x; 5",
        // parameters without annotation (holes written in an outer scope) whose type is fixed by an
        // annotated definition further in
        "ff = lo => (floor : int = lo; floor + 1); ff 10",
        "(lo => (floor : int = lo; if floor < 1 then 0 else floor)) 10",
        "gg = bb => (flag : bool = bb; if flag then 1 else 2); gg true",
        "hh = lo => hi => (floor : int = lo; top : int = hi; top - floor); hh 3 10",
    ] {
        texts.push(p.to_owned());
    }
    let texts: Rc<Vec<String>> = Rc::new(texts);
    let t2 = texts.clone();
    let horizon = tier.pick(500, 5_000);
    Sweep::new(
        "rewrite graph to depth 1 from the nested-group family",
        texts.len() as u64,
        move |idx| {
            count!("evaluations");
            // read with the grammar model (each worker reads only its own share)
            let Some(s) = surface::parse_text(&g, &texts[idx as usize]) else {
                crate::infra::machinery(&format!("family program is not a sentence: {}", texts[idx as usize]));
                return;
            };
            count!("family_initial_programs");
            search(&s, &Ty::Int, 1, horizon, true);
        },
        move |idx| t2[idx as usize].clone(),
    )
    .with_post_abort(|_, kind| AbortVerdict::Violation {
        sub: "abnormal-ending".to_owned(),
        input: String::new(),
        expected: "the behaviour of the initial program".to_owned(),
        actual: kind.to_owned(),
    })
}

// The mixed-group family: groups of 4 annotated definitions d0..d3, each a literal, a function
// `(p : int) => p + <mentions>` or a computed definition `1 + <mentions>`, mentioning at most
// `max_mentions` members of the group (functions are mentioned as calls `dj 2`), with any member as the
// body. Functions that refer to computed definitions placed before or after them, callers placed
// anywhere: the shapes on which moving a function within its group could matter.
struct MixedGroups {
    k: usize,
    subsets: Vec<Vec<usize>>,
}

impl MixedGroups {
    fn new(k: usize, max_mentions: usize) -> MixedGroups {
        let mut subsets = vec![];
        for mask in 0..(1usize << k) {
            if (mask.count_ones() as usize) <= max_mentions {
                subsets.push((0..k).filter(|j| mask & (1 << j) != 0).collect());
            }
        }
        MixedGroups { k, subsets }
    }
    fn per_def(&self) -> u64 {
        1 + 2 * self.subsets.len() as u64
    }
    fn count(&self) -> u64 {
        self.per_def().pow(self.k as u32) * self.k as u64
    }
    fn program(&self, mut idx: u64) -> S {
        let body = (idx % self.k as u64) as usize;
        idx /= self.k as u64;
        // 0 literal, 1 function, 2 computed
        let mut kinds = vec![];
        for _ in 0..self.k {
            let c = idx % self.per_def();
            idx /= self.per_def();
            kinds.push(if c == 0 { (0, 0) } else if c <= self.subsets.len() as u64 { (1, c as usize - 1) } else { (2, c as usize - 1 - self.subsets.len()) });
        }
        let name = |j: usize| format!("d{j}");
        let mention = |j: usize| if kinds[j].0 == 1 { S::App(bx(S::Var(name(j))), bx(S::Lit("2".into()))) } else { S::Var(name(j)) };
        let mut acc = mention(body);
        for i in (0..self.k).rev() {
            let (kind, set) = kinds[i];
            let sum = |first: S| self.subsets[set].iter().fold(first, |e, j| S::Bin(Op::Add, bx(e), bx(mention(*j))));
            let (ann, def) = match kind {
                0 => (S::Int, S::Lit("1".into())),
                1 => (
                    S::Paren(bx(S::Pi { name: None, implicit: false, dom: bx(S::Int), cod: bx(S::Int) })),
                    S::Paren(bx(S::Lam { name: format!("p{i}"), implicit: false, ann: Some(bx(S::Int)), body: bx(sum(S::Var(format!("p{i}")))) })),
                ),
                // a computed definition is never a syntactic value: `1 + 1` when it mentions nothing
                _ => (S::Int, if self.subsets[set].is_empty() { S::Bin(Op::Add, bx(S::Lit("1".into())), bx(S::Lit("1".into()))) } else { sum(S::Lit("1".into())) }),
            };
            acc = S::Let { name: name(i), ann: Some(bx(ann)), def: bx(def), body: bx(acc) };
        }
        acc
    }
}

fn mixed_group_sweep(k: usize, max_mentions: usize) -> Sweep {
    let fam = Rc::new(MixedGroups::new(k, max_mentions));
    let f2 = fam.clone();
    // divergent members (a function that calls itself twice) grow fast: a short horizon is enough to
    // tell a value from a run that is still going
    // (150 steps; a case gets 120 s of CPU time: at 300 steps and 20 s two divergent members were seen to
    // run into the watchdog on a loaded machine — an alarm about the machine, not about gram)
    let horizon = 150;
    Sweep::new(
        &format!("rewrite graph to depth 1 from the mixed-group family (functions and computed definitions in one group), k = {k}, at most {max_mentions} mention(s)"),
        fam.count(),
        move |idx| {
            count!("evaluations");
            count!("mixed_group_programs");
            search(&fam.program(idx), &Ty::Int, 1, horizon, true);
        },
        move |idx| surface::print(&f2.program(idx)),
    )
    .with_timeout(120)
    .with_post_abort(|_, kind| AbortVerdict::Violation {
        sub: "abnormal-ending".to_owned(),
        input: String::new(),
        expected: "the behaviour of the initial program".to_owned(),
        actual: kind.to_owned(),
    })
}

// Arithmetic / comparison sentences over literals as initial states (every operator, chains, grouped
// operands): redundant parentheses and the wrappers are applied at every subexpression, which is
// where precedence and association could make a difference.
fn expression_sweep(tier: Tier) -> Sweep {
    use crate::model::{grammar::Grammar, tok::{K, Tok}};
    let g = Grammar::load().restrict(
        &[K::IntegerLiteral, K::LeftParen, K::RightParen, K::Plus, K::Minus, K::Asterisk, K::Slash, K::LessThan, K::LessThanOrEqualTo, K::DoubleEquals, K::GreaterThan, K::GreaterThanOrEqualTo],
        &["let", "application", "non_dependent_pi"],
    );
    let sentences = Rc::new(std::cell::RefCell::new(crate::enumerate::Sentences::new(g.clone(), 5, tier.pick(9, 10))));
    let total = sentences.borrow().total;
    let s2 = sentences.clone();
    let g2 = g.clone();
    const VALUES: [&str; 6] = ["10", "3", "2", "6", "7", "1"];
    let tokens_of = move |g: &Grammar, tree: &crate::model::grammar::Tree| -> Vec<Tok> {
        let mut n = 0;
        crate::enumerate::name_simple(g, tree)
            .into_iter()
            .map(|t| {
                if t.k == K::IntegerLiteral {
                    n += 1;
                    Tok::lit(VALUES[(n - 1) % VALUES.len()])
                } else {
                    t
                }
            })
            .collect()
    };
    Sweep::new(
        "rewrite graph to depth 1 from arithmetic and comparison sentences over literals",
        total,
        move |idx| {
            let tree = sentences.borrow_mut().tree(idx);
            let toks = tokens_of(&g, &tree);
            let s = surface::reassoc(&surface::FromTree::new(&g, &toks).convert(&tree));
            count!("evaluations");
            count!("expression_initial_programs");
            let mut head = &s;
            while let S::Paren(inner) = head {
                head = inner;
            }
            let goal = match head {
                S::Bin(Op::Lt | Op::Le | Op::Eq | Op::Gt | Op::Ge, ..) => Ty::Bool,
                _ => Ty::Int,
            };
            search(&s, &goal, 1, 300, false);
        },
        move |idx| {
            let tree = s2.borrow_mut().tree(idx);
            crate::model::tok::layout(&crate::enumerate::name_simple(&g2, &tree)).0
        },
    )
    .with_post_abort(|_, kind| AbortVerdict::Violation {
        sub: "abnormal-ending".to_owned(),
        input: String::new(),
        expected: "the behaviour of the initial program".to_owned(),
        actual: kind.to_owned(),
    })
}

impl Prop for C19 {
    fn id(&self) -> &'static str {
        "C19"
    }
    fn sweeps(&self, tier: Tier) -> Vec<Sweep> {
        vec![
            bfs_sweep("rewrite graph to depth 2 from the smaller programs", tier, 1, tier.pick(4, 5), 2),
            bfs_sweep("rewrite graph to depth 1 from the larger programs", tier, tier.pick(5, 6), tier.pick(6, 7), 1),
            family_sweep(tier),
            mixed_group_sweep(4, 1),
            mixed_group_sweep(3, 2),
            expression_sweep(tier),
        ]
    }
    fn evidence(&self, tier: Tier) -> EvidenceSpec {
        EvidenceSpec {
            level: "model_checking",
            rule: "states = program texts; initial states = every type-directed program of type int, bool or type up to the size bound, every member of the nested-group family (recursive functions with helpers defined before or after them, nested groups), and every member of the mixed-group family (groups of 4 annotated definitions, each a literal, a function or a computed definition mentioning at most 1 member of the group, and groups of 3 mentioning at most 2, any member as the body), and every arithmetic / comparison sentence over literals of 5..9/10 tokens, that the real front end accepts and the real evaluator takes to a value; transitions = one rewrite at one site: R1 rename any bound variable consistently, R2 parenthesise any subexpression, R3 add an unused definition (a value, a non-value, a type) in front of the program, at the end of its outermost group, or (a value) at the end of any nested group, R4 name the program with a definition, R5 wrap the program or any subexpression whose head fixes its type in an immediately applied annotated identity function, R6 wrap it in `if true then e else e`, R7 swap two function definitions of a group, adjacent or not, that do not mention each other. Breadth-first search to depth 2 (smaller programs) / 1 (larger), dedup on the program text. Every reachable program is run through the real front end and evaluator and must show the behaviour of the initial program (same acceptance, same value). non-trivial = initial programs whose whole neighbourhood was explored".to_owned(),
            assumptions: vec!["no reference model is involved: the comparison is between two runs of the real code".to_owned()],
            evaluations: "evaluations",
            nontrivial: "nontrivial",
            states: Some("states"),
            transitions: Some("transitions"),
            traces: Some("traces_validated"),
            exhaustive: true,
            bounds: json!({"depth2_program_nodes": tier.pick(4, 5), "depth1_program_nodes": tier.pick(6, 7)}),
            minimums: vec![("initial_programs", 1000), ("states", 100_000), ("family_initial_programs", 300), ("mixed_group_programs", 50_000)],
        }
    }
}
