// C12 — unification succeeds only with a consistent, well-scoped solution.
use crate::{
    bind,
    infra::{AbortVerdict, EvidenceSpec, Prop, Sweep, Tier, violation},
    model::{
        mterm::{M, Mirror, R, free_vars, mirror, rc, to_real},
        surface,
        typing::{self, Conv},
    },
    props::sem,
};
use serde_json::json;
use std::{cell::RefCell, collections::HashMap, rc::Rc};

pub struct C12;

type Cells = HashMap<usize, Rc<RefCell<Option<crate::term::Term<'static>>>>>;

// Positions of a term in pre-order with the binder depth at each position.
fn positions(m: &M, depth: usize, out: &mut Vec<usize>) {
    out.push(depth);
    match m {
        M::Lam(_, _, a, b) | M::Pi(_, _, a, b) => {
            positions(a, depth, out);
            positions(b, depth + 1, out);
        }
        M::App(a, b) | M::Bin(_, a, b) => {
            positions(a, depth, out);
            positions(b, depth, out);
        }
        M::Let(ds, b) => {
            let d = depth + ds.len();
            for (_, a, e) in ds {
                positions(a, d, out);
                positions(e, d, out);
            }
            positions(b, d, out);
        }
        M::Neg(a) => positions(a, depth, out),
        M::If(a, b, c) => {
            positions(a, depth, out);
            positions(b, depth, out);
            positions(c, depth, out);
        }
        _ => {}
    }
}

// Replace the subterm at pre-order position `target` by `with`.
fn replace_at(m: &M, target: usize, with: &M, next: &mut usize) -> M {
    let me = *next;
    *next += 1;
    if me == target {
        // skip the positions of the replaced subterm
        let mut v = vec![];
        positions(m, 0, &mut v);
        *next += v.len() - 1;
        return with.clone();
    }
    let mut r = |x: &M| rc(replace_at(x, target, with, next));
    match m {
        M::Lam(n, i, a, b) => {
            let a2 = r(a);
            M::Lam(n.clone(), *i, a2, r(b))
        }
        M::Pi(n, i, a, b) => {
            let a2 = r(a);
            M::Pi(n.clone(), *i, a2, r(b))
        }
        M::App(a, b) => {
            let a2 = r(a);
            M::App(a2, r(b))
        }
        M::Bin(o, a, b) => {
            let a2 = r(a);
            M::Bin(*o, a2, r(b))
        }
        M::Let(ds, b) => {
            let mut nd = vec![];
            for (n, a, e) in ds {
                let a2 = r(a);
                nd.push((n.clone(), a2, r(e)));
            }
            M::Let(nd, r(b))
        }
        M::Neg(a) => M::Neg(r(a)),
        M::If(a, b, c) => {
            let a2 = r(a);
            let b2 = r(b);
            M::If(a2, b2, r(c))
        }
        other => other.clone(),
    }
}

// Occurrences (depth, shift) of every hole cell in a term.
fn hole_occurrences(m: &M, depth: usize, out: &mut Vec<(usize, usize, usize)>) {
    match m {
        M::Hole(c, s) => out.push((*c, depth, *s)),
        M::Lam(_, _, a, b) | M::Pi(_, _, a, b) => {
            hole_occurrences(a, depth, out);
            hole_occurrences(b, depth + 1, out);
        }
        M::App(a, b) | M::Bin(_, a, b) => {
            hole_occurrences(a, depth, out);
            hole_occurrences(b, depth, out);
        }
        M::Let(ds, b) => {
            let d = depth + ds.len();
            for (_, a, e) in ds {
                hole_occurrences(a, d, out);
                hole_occurrences(e, d, out);
            }
            hole_occurrences(b, d, out);
        }
        M::Neg(a) => hole_occurrences(a, depth, out),
        M::If(a, b, c) => {
            hole_occurrences(a, depth, out);
            hole_occurrences(b, depth, out);
            hole_occurrences(c, depth, out);
        }
        _ => {}
    }
}

// One unification problem: two mirror terms that may share hole cells (by id).
pub fn check_pair(a: &M, b: &M, describe: &dyn Fn() -> String) {
    check_pair_with(a, b, describe, true)
}

// `judge_consistency` is off for configurations assembled from unrelated terms under an application
// node (ill-typed by construction): only termination, acyclicity, scope and the context are judged.
pub fn check_pair_with(a: &M, b: &M, describe: &dyn Fn() -> String, judge_consistency: bool) {
    count!("unify_calls");
    count!("evaluations");
    let mut cells: Cells = HashMap::new();
    let (ra, rb) = (to_real(a, &mut cells), to_real(b, &mut cells));
    let copies_before = crate::verif_hooks::hole_copies();
    let mut dc = vec![];
    let r = bind::guard(|| crate::unifier::unify(&ra, &rb, &mut dc));
    let copied = crate::verif_hooks::hole_copies() > copies_before;
    let ok = match r {
        Err(m) => {
            violation("unify-panic", &describe(), "true or false", &format!("panic: {m}"));
            return;
        }
        Ok(v) => v,
    };
    if !dc.is_empty() {
        violation("context-not-restored", &describe(), "the definitions context as it was", &format!("{} extra entries", dc.len()));
    }
    if !ok {
        count!("unify_false");
        return;
    }
    count!("unify_true");
    // (3) no hole is solved by a term containing itself
    let mut mir = Mirror::new();
    let (sa, sb) = (mir.mirror(&ra), mir.mirror(&rb));
    if mir.cyclic {
        violation("cyclic-solution", &describe(), "an acyclic solution (occurs check)", "following the solutions does not terminate");
        return;
    }
    // (2) every solution only mentions variables in scope where its hole was written
    let mut occ = vec![];
    hole_occurrences(a, 0, &mut occ);
    hole_occurrences(b, 0, &mut occ);
    let mut solved = 0;
    for (id, cell) in &cells {
        let Some(sol) = cell.borrow().clone() else { continue };
        solved += 1;
        let sm = mirror(&sol);
        let mut fv = std::collections::BTreeSet::new();
        free_vars(&sm, 0, &mut fv);
        for (c, depth, shift) in &occ {
            if c == id {
                let limit = depth.saturating_sub(*shift);
                if let Some(bad) = fv.iter().find(|v| **v >= limit) {
                    violation(
                        "solution-escapes-scope",
                        &describe(),
                        &format!("a solution for hole ?{id} (written at depth {depth} with shift {shift}) mentioning only variables below {limit}"),
                        &format!("solution {} mentions variable {bad}", sm.show()),
                    );
                    return;
                }
            }
        }
    }
    if solved > 0 {
        count!("solved_a_hole");
        if occ.iter().any(|(_, d, _)| *d > 0) {
            count!("solved_under_a_binder");
        }
    }
    // (2b) well-formedness is preserved: every unresolved cell still stands for a term living at one
    // definite depth (all its occurrences, including those inside recorded solutions, agree on
    // depth - shift), and that depth is not negative
    {
        let mut after = vec![];
        hole_occurrences(&sa, 0, &mut after);
        hole_occurrences(&sb, 0, &mut after);
        let mut homes: HashMap<usize, isize> = HashMap::new();
        for (c, depth, shift) in after {
            if c == usize::MAX {
                continue;
            }
            let home = depth as isize - shift as isize;
            if home < 0 {
                violation("hole-lowered-below-its-scope", &describe(), "every unresolved hole keeps depth - shift >= 0", &format!("hole ?{c} at depth {depth} with shift {shift} in {} / {}", sa.show(), sb.show()));
                return;
            }
            if let Some(h) = homes.insert(c, home)
                && h != home
            {
                violation(
                    "hole-scope-changed",
                    &describe(),
                    &format!("all occurrences of the unresolved hole ?{c} agree on the depth its solution lives at"),
                    &format!("homes {h} and {home} in {}  /  {}", sa.show(), sb.show()),
                );
                return;
            }
        }
    }
    // (1) with the solutions filled in, the two terms are definitionally equal
    if !judge_consistency {
        count!("acyclic_and_scoped");
        count!("nontrivial");
        return;
    }
    match typing::convertible_closed(&sa, &sb, sem::TYPING_FUEL) {
        Conv::Equal => {
            count!("consistent");
            count!("nontrivial");
        }
        Conv::Unknown => count!("skipped_fuel"),
        Conv::Different => {
            if copied && crate::findings::is_known("F-HOLE-COPY") {
                crate::infra::known("F-HOLE-COPY", || describe());
            } else {
                violation("inconsistent-success", &describe(), "terms that are definitionally equal once the holes are filled with the recorded solutions", &format!("{}  vs  {}", sa.show(), sb.show()));
            }
        }
    }
}

fn terms(tier: Tier) -> Rc<Vec<(String, M)>> {
    let progs = sem::typed_programs(sem::typed_size(tier) - 1);
    Rc::new(progs.iter().filter_map(|(_, s)| surface::resolve(s, &[]).ok().map(|m| (surface::print(s), m))).collect())
}

// Patterns obtained by punching one or two holes into a term, unified with the term itself.
fn punch_sweep(tier: Tier) -> Sweep {
    let ts = terms(tier);
    let t2 = ts.clone();
    let t3 = ts.clone();
    Sweep::new(
        "patterns with one or two holes punched at every position and shift, against the instance",
        ts.len() as u64,
        move |idx| {
            let (text, inst) = &ts[idx as usize];
            count!("instances");
            // While F-HOLE-COPY is a known finding, holed patterns over recursive definitions are not
            // run: unfolding copies the hole at every round and unify does not terminate (each such
            // case would be attributed to the finding after a watchdog expiry).
            if crate::findings::is_known("F-HOLE-COPY") && has_recursive_definition(inst) {
                count!("skipped_recursive_instances");
                return;
            }
            let mut pos = vec![];
            positions(inst, 0, &mut pos);
            // one hole
            for (p, depth) in pos.iter().enumerate() {
                for shift in 0..=*depth {
                    let pat = replace_at(inst, p, &M::Hole(0, shift), &mut 0);
                    let d = || format!("unify(pattern, instance) with instance {text} and pattern {}", pat.show());
                    check_pair(&pat, inst, &d);
                    check_pair(inst, &pat, &d);
                }
            }
            // holes on both sides: cell A in one copy, cell B in the other (so a solution may itself
            // contain an unresolved hole that sits under binders of the solution)
            let n2 = pos.len().min(8);
            for p in 0..n2 {
                for q in 0..n2 {
                    if p == q {
                        continue;
                    }
                    for (s1, s2) in [(0, 0), (pos[p], pos[q]), (pos[p], 0), (0, pos[q]), (pos[p].min(1), pos[q].min(1))] {
                        let left = replace_at(inst, p, &M::Hole(0, s1.min(pos[p])), &mut 0);
                        let right = replace_at(inst, q, &M::Hole(1, s2.min(pos[q])), &mut 0);
                        let d = || format!("unify({}, {}) — two holed copies of {text}", left.show(), right.show());
                        check_pair(&left, &right, &d);
                    }
                }
            }
            // two holes: distinct cells, and the same cell twice (shift 0..depth each; capped)
            let n = pos.len().min(9);
            for p in 0..n {
                for q in p + 1..n {
                    for same in [false, true] {
                        for (s1, s2) in [(0, 0), (pos[p], pos[q]), (0, pos[q]), (pos[p], 0)] {
                            // occurrences of one cell must agree on where the unknown term lives
                            if same && pos[p] - s1.min(pos[p]) != pos[q] - s2.min(pos[q]) {
                                continue;
                            }
                            let once = replace_at(inst, q, &M::Hole(if same { 0 } else { 1 }, s2.min(pos[q])), &mut 0);
                            // position p precedes q in pre-order; if q lies inside p the second replacement
                            // simply swallows it
                            let pat = replace_at(&once, p, &M::Hole(0, s1.min(pos[p])), &mut 0);
                            let d = || format!("unify(pattern, instance) with instance {text} and pattern {}", pat.show());
                            check_pair(&pat, inst, &d);
                        }
                    }
                }
            }
            if idx % 2000 == 1 {
                crate::infra::sample("instance", || json!(text));
            }
        },
        move |idx| t2[idx as usize].0.clone(),
    )
    .with_timeout(6)
    .with_post_abort(move |idx, kind| abort_for(&[&t3[idx as usize].1], kind))
}

// Does the term contain a definition group with a definition that mentions the group (recursion)?
pub fn has_recursive_definition(m: &M) -> bool {
    match m {
        M::Let(ds, b) => {
            ds.iter().any(|(_, a, d)| {
                let mut fv = std::collections::BTreeSet::new();
                free_vars(d, 0, &mut fv);
                free_vars(a, 0, &mut fv);
                fv.iter().any(|v| *v < ds.len()) || has_recursive_definition(a) || has_recursive_definition(d)
            }) || has_recursive_definition(b)
        }
        M::Lam(_, _, a, b) | M::Pi(_, _, a, b) | M::App(a, b) | M::Bin(_, a, b) => has_recursive_definition(a) || has_recursive_definition(b),
        M::Neg(a) => has_recursive_definition(a),
        M::If(a, b, c) => has_recursive_definition(a) || has_recursive_definition(b) || has_recursive_definition(c),
        _ => false,
    }
}

// An abnormal ending of unify on a holed pair: unfolding a recursive definition copies an unresolved
// hole at every round, so the syntactic shortcut never fires (DESIGN.md 6/C12) — an instance of
// F-HOLE-COPY when the terms contain a recursive definition; a violation otherwise.
fn abort_for(terms: &[&M], kind: &str) -> AbortVerdict {
    if crate::findings::is_known("F-HOLE-COPY") && terms.iter().any(|t| has_recursive_definition(t)) {
        AbortVerdict::Known("F-HOLE-COPY".to_owned(), format!("unify did not terminate ({kind}) on a holed pair with a recursive definition: {}", terms[0].show()))
    } else {
        AbortVerdict::Violation { sub: "abnormal-ending".to_owned(), input: String::new(), expected: "a verdict".to_owned(), actual: kind.to_owned() }
    }
}

// Unrelated terms with at most one hole punched in either; occurs-check and scope-escape configurations.
fn pairs_sweep(tier: Tier) -> Sweep {
    // the smallest terms, and the smallest terms that are definition groups (which are larger than most)
    let all = terms(tier);
    let small = (all.len()).min(tier.pick(400, 1200));
    let mut pool: Vec<(String, M)> = all.iter().take(small).cloned().collect();
    pool.extend(all.iter().skip(small).filter(|(_, m)| matches!(m, M::Let(..))).take(tier.pick(160, 400)).cloned());
    // implicitness is part of the judgement: the implicit twins of the first functions and function types
    // (a function type unifies with its twin only inconsistently)
    let twins: Vec<(String, M)> = pool
        .iter()
        .filter_map(|(t, m)| match m {
            M::Lam(n, i, a, b) => Some((format!("{t} [implicit twin]"), M::Lam(n.clone(), !*i, a.clone(), b.clone()))),
            M::Pi(n, i, a, b) => Some((format!("{t} [implicit twin]"), M::Pi(n.clone(), !*i, a.clone(), b.clone()))),
            _ => None,
        })
        .take(40)
        .collect();
    pool.extend(twins);
    let ts = Rc::new(pool);
    let n = ts.len() as u64;
    let t2 = ts.clone();
    let t3 = ts.clone();
    Sweep::new(
        "ordered pairs of unrelated terms with a hole punched in either; occurs-check and scope-escape configurations",
        n * n,
        move |idx| {
            let (ta, a) = &ts[(idx / n) as usize];
            let (tb, b) = &ts[(idx % n) as usize];
            count!("term_pairs");
            let d = |pa: &M, pb: &M| format!("unify of {}  and  {}   (from {ta} and {tb})", pa.show(), pb.show());
            // hole-free
            check_pair(a, b, &|| d(a, b));
            if crate::findings::is_known("F-HOLE-COPY") && (has_recursive_definition(a) || has_recursive_definition(b)) {
                count!("skipped_recursive_instances");
                return;
            }
            let mut pa = vec![];
            positions(a, 0, &mut pa);
            for (p, depth) in pa.iter().enumerate().take(6) {
                let holed = replace_at(a, p, &M::Hole(0, 0), &mut 0);
                check_pair(&holed, b, &|| d(&holed, b));
                check_pair(b, &holed, &|| d(b, &holed));
                if *depth > 0 {
                    // scope escape: a hole at shift `depth` (lives outside all binders) against a subterm
                    // that may mention bound variables
                    let h2 = replace_at(a, p, &M::Hole(0, *depth), &mut 0);
                    check_pair(&h2, b, &|| d(&h2, b));
                }
            }
            // occurs check: the same cell on both sides
            let left = M::Hole(0, 0);
            let right = replace_at(b, 1.min(pa.len().saturating_sub(1)), &M::Hole(0, 0), &mut 0);
            if right.has_hole() && !matches!(right, M::Hole(..)) {
                check_pair(&left, &right, &|| d(&left, &right));
                check_pair(&right, &left, &|| d(&right, &left));
                count!("occurs_check_configurations");
            }
            // occurs check through an earlier solution: (?0 ?1) against (a[?1] b[?0]) — the first
            // component solves ?0 by a term containing ?1, the second then meets ?1 against a term
            // that contains the already solved ?0. Holes under binders are written at shift = depth,
            // so every occurrence of a cell lives in the outermost scope.
            let mut pb = vec![];
            positions(b, 0, &mut pb);
            for (p, dp) in pa.iter().enumerate().take(4) {
                for (q, dq) in pb.iter().enumerate().take(4) {
                    let ca = replace_at(a, p, &M::Hole(1, *dp), &mut 0);
                    let cb = replace_at(b, q, &M::Hole(0, *dq), &mut 0);
                    let left = M::App(Rc::new(M::Hole(0, 0)), Rc::new(M::Hole(1, 0)));
                    let right = M::App(Rc::new(ca), Rc::new(cb));
                    check_pair_with(&left, &right, &|| d(&left, &right), false);
                    check_pair_with(&right, &left, &|| d(&right, &left), false);
                    count!("chained_occurs_check_configurations");
                }
            }
        },
        move |idx| format!("{}  ~  {}", t2[(idx / n) as usize].0, t2[(idx % n) as usize].0),
    )
    .with_timeout(6)
    .with_post_abort(move |idx, kind| abort_for(&[&t3[(idx / n) as usize].1, &t3[(idx % n) as usize].1], kind))
}

// One hole written at several binder depths, under a context that mixes parameters and definitions:
// `(x : ?H) -> ?H`, `(x : ?H) -> (y : ?H) -> ?H`, `?H -> int -> ?H` against the same shape over every
// choice of context variables and base types. The first occurrence fixes the solution; the later ones
// (non-zero shift) compare the recorded solution, seen from a deeper scope, with another term — every
// lookup of a context entry on the way has to land on the right entry.
fn depth_sweep() -> Sweep {
    use crate::props::c18::{Block, materialise, wrap_term};
    let entry = |k: usize, pos: usize| -> Block {
        let n = |s: &str| -> Rc<str> { Rc::from(format!("{s}{pos}")) };
        match k {
            0 => Block::Param(n("a"), false, rc(M::Type)),
            1 => Block::Group(vec![(n("t"), rc(M::Type), rc(M::Int))]),
            2 => Block::Group(vec![(n("u"), rc(M::Type), rc(M::Bool))]),
            _ => Block::Param(n("n"), false, rc(M::Int)),
        }
    };
    // contexts: every sequence of 1..3 entries
    let mut contexts: Vec<Vec<usize>> = vec![];
    for len in 1..=3usize {
        for code in 0..4usize.pow(len as u32) {
            contexts.push((0..len).map(|i| (code / 4usize.pow(i as u32)) % 4).collect());
        }
    }
    let contexts = Rc::new(contexts);
    let c2 = contexts.clone();
    Sweep::new(
        "one hole at several binder depths under contexts of parameters and definitions",
        contexts.len() as u64,
        move |idx| {
            let ctx = &contexts[idx as usize];
            let blocks: Vec<Block> = ctx.iter().enumerate().map(|(i, k)| entry(*k, i)).collect();
            let n = ctx.len();
            // components: context variables (index from the innermost) and base types
            let mut pool: Vec<M> = (0..n).map(|i| M::Var(Rc::from(format!("v{}", n - 1 - i)), i)).collect();
            pool.extend([M::Int, M::Bool, M::Type]);
            let up = |m: &M, by: usize| crate::model::mterm::shift(m, 0, by as isize).unwrap();
            let x: Rc<str> = Rc::from("x");
            let y: Rc<str> = Rc::from("y");
            let pi = |name: &Rc<str>, a: M, b: M| M::Pi(name.clone(), false, rc(a), rc(b));
            let mut problems: Vec<(M, M)> = vec![];
            for a in &pool {
                for b in &pool {
                    problems.push((pi(&x, M::Hole(0, 0), M::Hole(0, 1)), pi(&x, a.clone(), up(b, 1))));
                    problems.push((pi(&x, M::Hole(0, 0), pi(&y, M::Int, M::Hole(0, 2))), pi(&x, a.clone(), pi(&y, M::Int, up(b, 2)))));
                    for c in &pool {
                        problems.push((pi(&x, M::Hole(0, 0), pi(&y, M::Hole(0, 1), M::Hole(0, 2))), pi(&x, a.clone(), pi(&y, up(b, 1), up(c, 2)))));
                    }
                }
            }
            // hole-free: every component, and every component wrapped in nested groups that unfold to it
            // (a : type = X; b : type = int; (c : type = a; c)), against every other — conversion under a
            // context has to open groups whose members mention context variables
            let a_: Rc<str> = Rc::from("ga");
            let b_: Rc<str> = Rc::from("gb");
            let c_: Rc<str> = Rc::from("gc");
            let wrapped: Vec<M> = pool
                .iter()
                .map(|x| {
                    let inner = M::Let(vec![(c_.clone(), rc(M::Type), rc(M::Var(a_.clone(), 2)))], rc(M::Var(c_.clone(), 0)));
                    M::Let(vec![(a_.clone(), rc(M::Type), rc(up(x, 2))), (b_.clone(), rc(M::Type), rc(M::Int))], rc(inner))
                })
                .collect();
            let all: Vec<&M> = pool.iter().chain(wrapped.iter()).collect();
            for p in &all {
                for q in &all {
                    count!("unify_calls");
                    count!("evaluations");
                    count!("depth_hole_free_pairs");
                    let want = typing::convertible_closed(&wrap_term(&blocks, p), &wrap_term(&blocks, q), sem::TYPING_FUEL);
                    if want == Conv::Unknown {
                        count!("skipped_fuel");
                        continue;
                    }
                    let (_, mut dc) = materialise(&blocks);
                    let (rp, rq) = (to_real(p, &mut Default::default()), to_real(q, &mut Default::default()));
                    match bind::guard(|| crate::unifier::unify(&rp, &rq, &mut dc)) {
                        Err(m) => violation("unify-panic", &format!("unify({}, {}) under the context {}", p.show(), q.show(), wrap_term(&blocks, &M::Lit(0.into())).show()), "a verdict", &m),
                        Ok(got) => {
                            if got == (want == Conv::Equal) {
                                count!("consistent");
                                count!("nontrivial");
                            } else {
                                violation(
                                    "hole-free-conversion-under-context",
                                    &format!("unify({}, {}) under the context {}", p.show(), q.show(), wrap_term(&blocks, &M::Lit(0.into())).show()),
                                    &format!("{want:?} (the reference on the closed counterparts)"),
                                    &format!("unify = {got}"),
                                );
                            }
                        }
                    }
                }
            }
            for (pat, inst) in problems {
                for swap in [false, true] {
                    count!("unify_calls");
                    count!("evaluations");
                    count!("depth_problems");
                    let (_, mut dc) = materialise(&blocks);
                    let base = dc.len();
                    let mut cells = Default::default();
                    let (rp, ri) = (to_real(&pat, &mut cells), to_real(&inst, &mut cells));
                    let r = if swap { bind::guard(|| crate::unifier::unify(&ri, &rp, &mut dc)) } else { bind::guard(|| crate::unifier::unify(&rp, &ri, &mut dc)) };
                    let d = || format!("unify({}, {}){} under the context {}", pat.show(), inst.show(), if swap { " (arguments swapped)" } else { "" }, wrap_term(&blocks, &M::Lit(0.into())).show());
                    if dc.len() != base {
                        violation("context-not-restored", &d(), &format!("{base} entries"), &format!("{}", dc.len()));
                        continue;
                    }
                    match r {
                        Err(m) => violation("unify-panic", &d(), "a verdict", &m),
                        Ok(false) => count!("unify_false"),
                        Ok(true) => {
                            count!("unify_true");
                            let (sp, si) = (mirror(&rp), mirror(&ri));
                            match typing::convertible_closed(&wrap_term(&blocks, &sp), &wrap_term(&blocks, &si), sem::TYPING_FUEL) {
                                Conv::Equal => {
                                    count!("consistent");
                                    count!("nontrivial");
                                }
                                Conv::Unknown => count!("skipped_fuel"),
                                Conv::Different => violation("inconsistent-success", &d(), "convertible terms once the solution is filled in", &format!("{} vs {}", sp.show(), si.show())),
                            }
                        }
                    }
                }
            }
        },
        move |idx| format!("context kinds {:?}", c2[idx as usize]),
    )
}

// The occurs check in every child position of every term former: under a context of one boolean and one
// integer parameter, the hole against a term in weak-head normal form that contains it — in the
// condition, the then-branch and the else-branch of a conditional stuck on the parameter (directly and
// one level further in), in either operand of an operator stuck on the parameter, in the argument and
// the function of a neutral application, in the domain and the codomain of a function type, in the
// annotation and the body of a function, under a negation. Both argument orders. A success must not
// leave the cell solved by a term that contains it.
fn occurs_positions_sweep() -> Sweep {
    use crate::model::mterm::Op;
    let b = || rc(M::Var(Rc::from("b"), 1));
    let n = || rc(M::Var(Rc::from("n"), 0));
    let h = |s: usize| rc(M::Hole(0, s));
    let x: Rc<str> = Rc::from("x");
    let arrow = |a: R, c: R| rc(M::Pi(x.clone(), false, a, c));
    let int = || rc(M::Int);
    let mut terms: Vec<M> = vec![];
    for inner in [h(0), arrow(h(0), int()), arrow(int(), h(1))] {
        terms.push(M::If(b(), int(), inner.clone()));
        terms.push(M::If(b(), inner.clone(), int()));
        terms.push(M::If(b(), int(), rc(M::If(b(), int(), inner.clone()))));
        terms.push(M::App(n(), inner.clone()));
        terms.push(M::App(rc(M::App(n(), inner.clone())), int()));
        terms.push(M::Neg(inner.clone()));
        for op in [Op::Add, Op::Mul, Op::Lt, Op::Eq, Op::Ge] {
            terms.push(M::Bin(op, n(), inner.clone()));
            terms.push(M::Bin(op, inner.clone(), n()));
        }
    }
    terms.push(M::If(h(0), int(), int()));
    terms.push(M::Pi(x.clone(), false, h(0), int()));
    terms.push(M::Pi(x.clone(), false, int(), h(1)));
    terms.push(M::Pi(x.clone(), true, int(), arrow(h(1), h(2))));
    terms.push(M::Lam(x.clone(), false, int(), h(1)));
    terms.push(M::Lam(x.clone(), false, h(0), rc(M::Var(x.clone(), 0))));
    terms.push(M::App(h(0), int()));
    let terms = Rc::new(terms);
    let t2 = terms.clone();
    Sweep::new(
        "the occurs check in every child position of every term former (the hole against a weak-head normal term that contains it)",
        terms.len() as u64 * 2,
        move |idx| {
            let t = &terms[idx as usize / 2];
            let swap = idx % 2 == 1;
            count!("unify_calls");
            count!("evaluations");
            count!("occurs_position_problems");
            let mut cells: Cells = HashMap::new();
            let (rh, rt) = (to_real(&M::Hole(0, 0), &mut cells), to_real(t, &mut cells));
            let mut dc: Vec<Option<(Rc<crate::term::Term<'static>>, usize)>> = vec![None, None];
            let r = if swap { bind::guard(|| crate::unifier::unify(&rt, &rh, &mut dc)) } else { bind::guard(|| crate::unifier::unify(&rh, &rt, &mut dc)) };
            let d = || format!("unify(?0^0, {}){} under the context [b : bool; n : int]", t.show(), if swap { " (arguments swapped)" } else { "" });
            if dc.len() != 2 {
                violation("context-not-restored", &d(), "2 entries", &format!("{}", dc.len()));
                return;
            }
            match r {
                Err(m) => violation("unify-panic", &d(), "a verdict", &m),
                Ok(false) => {
                    count!("unify_false");
                    count!("occurs_position_refused");
                    count!("nontrivial");
                }
                Ok(true) => {
                    count!("unify_true");
                    let mut mir = Mirror::new();
                    mir.mirror(&rh);
                    mir.mirror(&rt);
                    if mir.cyclic {
                        violation("cyclic-solution", &d(), "false: the term contains the hole", "true, and the hole is solved by a term that contains it");
                    } else {
                        count!("nontrivial");
                    }
                }
            }
        },
        move |idx| t2[idx as usize / 2].show(),
    )
}

// Terms whose operators are stuck on variables (every binary operator on x and y, on a variable and a
// literal, on a variable and an operand that still reduces; the negation; the same as the condition of a
// conditional), all ordered pairs: hole-free (a success must be consistent; a term against itself and
// against its reduct — `x op (1 + 1)` against `x op 2` — must succeed), and with a hole punched at each
// of the first six positions of the left term, in both argument orders.
fn stuck_pairs_sweep() -> Sweep {
    let mut ts = crate::props::c06::stuck_operator_terms();
    // ... and conditionals stuck on a neutral application whose arguments are convertible, differently written integers
    ts.extend(crate::props::c06::neutral_spine_terms().into_iter().filter(|(t, _)| t.contains(" if ")));
    let ts = Rc::new(ts);
    let n = ts.len() as u64;
    let t2 = ts.clone();
    Sweep::new(
        "ordered pairs of terms whose operators are stuck on variables, hole-free and with a hole punched in the left one",
        n * n,
        move |idx| {
            let (ta, a) = &ts[(idx / n) as usize];
            let (tb, b) = &ts[(idx % n) as usize];
            count!("term_pairs");
            count!("stuck_operator_pairs");
            let d = |pa: &M, pb: &M| format!("unify of {}  and  {}   (from {ta} and {tb})", pa.show(), pb.show());
            check_pair(a, b, &|| d(a, b));
            // a term and itself, a term and its reduct
            if ta == tb || ta.replace("(1 + 1)", "2") == *tb || tb.replace("(1 + 1)", "2") == *ta {
                let (ra, rb) = (to_real(a, &mut Default::default()), to_real(b, &mut Default::default()));
                let mut dc = vec![];
                match bind::guard(|| crate::unifier::unify(&ra, &rb, &mut dc)) {
                    Ok(true) => {
                        count!("reduct_unified");
                        count!("nontrivial");
                    }
                    Ok(false) => violation("reduct-not-unified", &d(a, b), "true: a hole-free term unifies with itself and with its reducts", "false"),
                    Err(m) => violation("unify-panic", &d(a, b), "true", &m),
                }
            }
            let mut pa = vec![];
            positions(a, 0, &mut pa);
            for (p, _) in pa.iter().enumerate().take(8) {
                let holed = replace_at(a, p, &M::Hole(0, 0), &mut 0);
                check_pair(&holed, b, &|| d(&holed, b));
                check_pair(b, &holed, &|| d(b, &holed));
            }
        },
        move |idx| format!("{}  ~  {}", t2[(idx / n) as usize].0, t2[(idx % n) as usize].0),
    )
}

// The occurs check through transparent definitions. The context ends in a group of one or two type
// definitions of which one contains the hole (`t = ?h -> int`, `t = int -> ?h`, `t = (x : ?h) -> ?h`,
// `t = ?h`) and the other, if any, is an alias of it (`u = t`, before or after it); the hole is unified
// with the *name* of a definition (or with a type built from it), in both argument orders. The name
// contains no hole, its definition does, and the solution recorded is the name's weak-head normal form:
// Oracle: no panic, context restored, and — when unify answers true — following the recorded solutions
// from the definitions of the context and from the two terms terminates (no cell is solved by a term
// that contains that cell). A definition that merely comes to mention its own *name* (`t = (t -> int)
// -> int` after `?h := t -> int`) is not judged: the solution does not contain the hole.
fn context_occurs_sweep() -> Sweep {
    // (prefix parameters, group layout 0: [t] 1: [t, u = t] 2: [u = t, t], shape of t's definition, problem, order)
    const SHAPES: usize = 4;
    const PROBLEMS: usize = 5;
    let total = (2 * 3 * SHAPES * PROBLEMS * 2) as u64;
    let build = move |idx: u64| {
        let mut i = idx as usize;
        let swap = i % 2 == 1;
        i /= 2;
        let problem = i % PROBLEMS;
        i /= PROBLEMS;
        let shape = i % SHAPES;
        i /= SHAPES;
        let layout = i % 3;
        i /= 3;
        let prefix = i % 2;
        (prefix, layout, shape, problem, swap)
    };
    Sweep::new(
        "occurs check through the definitions of the context (a hole unified with the name of a definition that contains it)",
        total,
        move |idx| {
            let (prefix, layout, shape, problem, swap) = build(idx);
            let x: Rc<str> = Rc::from("x");
            let h = |shift: usize| M::Hole(0, shift);
            let pi = |a: M, b: M| M::Pi(x.clone(), false, rc(a), rc(b));
            let t_def = match shape {
                0 => pi(h(0), M::Int),
                1 => pi(M::Int, h(1)),
                2 => pi(h(0), h(1)),
                _ => h(0),
            };
            let g = if layout == 0 { 1 } else { 2 };
            let len = prefix + g;
            // position of t and u in the context (0 = outermost)
            let (t_pos, u_pos) = match layout {
                0 => (prefix, usize::MAX),
                1 => (prefix, prefix + 1),
                _ => (prefix + 1, prefix),
            };
            let var = |pos: usize| M::Var(Rc::from(if pos == t_pos { "t" } else { "u" }), len - 1 - pos);
            let mut cells: Cells = HashMap::new();
            let mut dc: Vec<Option<(Rc<crate::term::Term<'static>>, usize)>> = vec![];
            for _ in 0..prefix {
                dc.push(None);
            }
            let mut defs_m: Vec<(usize, M)> = vec![];
            for j in 0..g {
                let pos = prefix + j;
                let d = if pos == t_pos { t_def.clone() } else { var(t_pos) };
                defs_m.push((pos, d.clone()));
                dc.push(Some((Rc::new(to_real(&d, &mut cells)), g - j)));
            }
            let target = if u_pos != usize::MAX && problem % 2 == 1 { var(u_pos) } else { var(t_pos) };
            let (a, b) = match problem {
                0 | 1 => (h(0), target),
                2 | 3 => (pi(h(0), M::Int), target),
                _ => (h(0), pi(target, M::Int)),
            };
            let (ra, rb) = (to_real(&a, &mut cells), to_real(&b, &mut cells));
            let describe = || {
                let ctx: Vec<String> = (0..prefix).map(|_| "a : type".to_owned()).chain(defs_m.iter().map(|(pos, d)| format!("{} = {}", if *pos == t_pos { "t" } else { "u" }, d.show()))).collect();
                format!("unify({}, {}){} under the context [{}]", a.show(), b.show(), if swap { " (arguments swapped)" } else { "" }, ctx.join("; "))
            };
            // does following the recorded solutions from any definition of the context or from either
            // term come back to a cell already being followed?
            let cell_cycle = |dc: &Vec<Option<(Rc<crate::term::Term<'static>>, usize)>>| -> bool {
                let mut mir = Mirror::new();
                for (d, _) in dc.iter().flatten() {
                    mir.mirror(d);
                }
                mir.mirror(&ra);
                mir.mirror(&rb);
                mir.cyclic
            };
            count!("unify_calls");
            count!("evaluations");
            count!("context_occurs_problems");
            let base = dc.len();
            let r = if swap { bind::guard(|| crate::unifier::unify(&rb, &ra, &mut dc)) } else { bind::guard(|| crate::unifier::unify(&ra, &rb, &mut dc)) };
            if dc.len() != base {
                violation("context-not-restored", &describe(), &format!("{base} entries"), &format!("{}", dc.len()));
                return;
            }
            match r {
                Err(m) => violation("unify-panic", &describe(), "a verdict", &m),
                Ok(false) => {
                    count!("unify_false");
                    count!("context_occurs_refused");
                    count!("nontrivial");
                }
                Ok(true) => {
                    count!("unify_true");
                    if cell_cycle(&dc) {
                        let sol = cells.get(&0).and_then(|c| c.borrow().clone()).map(|t| mirror(&t).show()).unwrap_or_default();
                        violation("cyclic-solution", &describe(), "false, or a solution that does not contain its own hole (the definition the name stands for contains it)", &format!("true with ?0 := {sol}"));
                    } else {
                        count!("context_occurs_acyclic_success");
                        count!("nontrivial");
                    }
                }
            }
        },
        move |idx| format!("{:?}", build(idx)),
    )
}

impl Prop for C12 {
    fn id(&self) -> &'static str {
        "C12"
    }
    fn sweeps(&self, tier: Tier) -> Vec<Sweep> {
        vec![punch_sweep(tier), pairs_sweep(tier), crate::props::c18::unify_under_context_sweep(tier), depth_sweep(), context_occurs_sweep(), stuck_pairs_sweep(), occurs_positions_sweep()]
    }
    fn evidence(&self, tier: Tier) -> EvidenceSpec {
        EvidenceSpec {
            level: "exploration",
            rule: "instances = every closed type-directed term up to the size bound; patterns = the instance with a hole punched at every position with every shift 0..binder depth (both argument orders), and with two holes (distinct cells and the same cell twice) at every pair of the first 9 positions; two holed copies of the instance against each other (a different cell on each side, every ordered pair of the first 8 positions, five shift combinations); every ordered pair of the N smallest terms and the 160/400 smallest terms that are definition groups, hole-free and with a hole punched at each of the first 6 positions of either (shift 0 and shift = depth: scope-escape configurations), and the same cell on both sides (occurs-check configurations), and chained occurs-check configurations (?0 ?1) against (a[?1] b[?0]) for the first 4 x 4 positions of every ordered pair, where the cycle closes only through an earlier solution (judged for termination, acyclicity, scope and context only: the application node is ill-typed by construction); the same under contexts with parameters and definitions (see C18); and one hole written at two and three binder depths ((x : ?H) -> ?H, (x : ?H) -> (y : ?H) -> ?H, ?H -> int -> ?H) against the same shapes over every choice of context variables and base types, under every context of one to three entries drawn from a type parameter, an integer parameter and the definitions t = int, u = bool (43 k problems, both argument orders), together with the hole-free pairs of every context variable / base type and its wrapping in nested groups whose members mention it, judged in both directions against the reference on the closed counterparts. Whenever the real unify returns true: following the recorded solutions must terminate, every solution's free variables must lie below (depth - shift) of every occurrence of its hole, every unresolved hole (also inside a recorded solution) must keep one definite, non-negative home depth, the two terms with solutions filled in must be convertible in the reference, and the definitions context must be as before. `false` is never a violation on a holed pair. evaluations = unification problems; non-trivial = successful unifications confirmed consistent Two further sweeps: the occurs check through transparent definitions (a context ending in a group in which one definition contains the hole and another may be an alias of it; the hole against the NAME of a definition or a type built from it, both orders, 240 problems; a success must not leave a cell solved by a term that contains that cell), and all ordered pairs of the terms whose operators are stuck on variables (every binary operator on two variables, a variable and a literal, a variable and an operand that still reduces; negation; the same as the condition of a conditional), hole-free (a term against itself and against its reduct must succeed) and with a hole punched at each of the first eight positions.".to_owned(),
            assumptions: vec![
                "reference conversion (NbE with fuel); Unknown is skipped".to_owned(),
                "inconsistent successes during which hook H2 counted a hole copy are instances of the known finding F-HOLE-COPY".to_owned(),
            ],
            evaluations: "evaluations",
            nontrivial: "nontrivial",
            states: None,
            transitions: None,
            traces: None,
            exhaustive: true,
            bounds: json!({"instance_nodes": sem::typed_size(tier) - 1, "pair_terms": tier.pick(400, 1200)}),
            minimums: vec![("unify_true", 100_000), ("unify_false", 10_000), ("solved_under_a_binder", 1_000), ("occurs_check_configurations", 1_000)],
        }
    }
}
