// C17 — parsing time does not blow up with nesting or length.
//
// Input families are built from 41 "wrappers" (a prefix and a suffix around a hole, with the
// precedence level they need and produce); a family of period 1 or 2 nests n wrappers around an atom
// (parentheses are inserted where the grammar requires them). Every family is run well formed,
// truncated and with a wrong token planted, on a ladder of sizes; the work measure is the number of
// heap allocations during tokenize + parse. A second sweep does the same for long definition groups
// whose members refer to each other along many paths (reference graphs by offset sets).
use crate::{
    alloc_count::allocations,
    bind::guard,
    infra::{AbortVerdict, EvidenceSpec, Prop, Sweep, Tier, violation},
};
use serde_json::json;

pub struct C17;

struct Wrapper {
    name: &'static str,
    pre: &'static str,  // `@` is replaced by a fresh variable name
    post: &'static str, // likewise
    requires: u8,
    produces: u8,
}

fn wrappers() -> Vec<Wrapper> {
    let w = |name, pre, post, requires, produces| Wrapper { name, pre, post, requires, produces };
    vec![
        w("paren", "(", ")", 0, 7),
        w("sum-left", "", "+ x", 4, 3),
        w("sum-right", "x +", "", 3, 3),
        w("difference-right", "x -", "", 3, 3),
        w("negation", "-", "", 4, 4),
        w("product-right", "x *", "", 4, 5),
        w("application-right", "f", "", 6, 6),
        w("application-left", "", "x", 7, 6),
        w("less-than", "x <", "", 3, 2),
        w("let", "@ = 1 ;", "", 0, 0),
        w("let-annotated", "@ : int = 1 ;", "", 0, 0),
        w("let-definition", "@ =", "; @", 0, 0),
        w("if-else", "if true then x else", "", 0, 1),
        w("if-then", "if true then", "else x", 0, 1),
        w("if-condition", "if", "then x else x", 0, 1),
        w("lambda", "@ =>", "", 0, 1),
        w("lambda-implicit", "{ @ } =>", "", 0, 1),
        w("lambda-annotated", "( @ : int ) =>", "", 0, 1),
        w("lambda-annotation", "( @ :", ") => x", 1, 1),
        w("pi", "( @ : int ) ->", "", 0, 1),
        w("arrow-right", "x ->", "", 0, 1),
        w("arrow-left", "", "-> x", 6, 1),
        // chains ending in two parenthesised operands, nested through the first / the second of them
        w("application-grouped-then-grouped", "f (", ") ( x )", 0, 6),
        w("application-grouped-grouped-last", "f ( x ) (", ")", 0, 6),
        w("sum-grouped-then-grouped", "x + (", ") + ( x )", 0, 3),
        w("sum-grouped-grouped-last", "x + ( x ) + (", ")", 0, 3),
        w("product-grouped-then-grouped", "x * (", ") * ( x )", 0, 5),
        w("product-grouped-grouped-last", "x * ( x ) * (", ")", 0, 5),
        // a parenthesised operand in the middle of a chain, for every pair of operators around it
        w("middle-plus-plus", "x + (", ") + x", 0, 3),
        w("middle-plus-minus", "x + (", ") - x", 0, 3),
        w("middle-minus-plus", "x - (", ") + x", 0, 3),
        w("middle-minus-minus", "x - (", ") - x", 0, 3),
        w("middle-times-times", "x * (", ") * x", 0, 5),
        w("middle-times-over", "x * (", ") / x", 0, 5),
        w("middle-over-times", "x / (", ") * x", 0, 5),
        w("middle-over-over", "x / (", ") / x", 0, 5),
        w("middle-plus-times", "x + (", ") * x", 0, 3),
        w("middle-application", "f (", ") x", 0, 6),
        // groups of several members whose body is a parenthesised group of its own, and groups nested
        // through a definition (values and computed definitions)
        w("group-of-two-grouped-body", "@ = 1 ; @x = 2 ; (", ")", 0, 0),
        w("group-of-three-computed-grouped-body", "@ = 1 + 1 ; @x = @ + 1 ; @y = @x ; (", ")", 0, 0),
        w("group-of-two-grouped-definition", "@ = (", ") ; @x = 2 ; @", 0, 0),
    ]
}

// The token list of family (a, b) at size n.
fn family(ws: &[Wrapper], a: usize, b: usize, n: usize) -> Vec<String> {
    let mut pre: Vec<String> = vec![];
    let mut post_rev: Vec<Vec<String>> = vec![];
    // wrappers outermost first: index i uses a for even i, b for odd i
    let which = |i: usize| if i % 2 == 0 { a } else { b };
    for i in 0..n {
        let w = &ws[which(i)];
        let inner_level = if i + 1 < n { ws[which(i + 1)].produces } else { 7 };
        let var = format!("v{i}");
        for t in w.pre.split_whitespace() {
            pre.push(t.replace('@', &var));
        }
        let mut post: Vec<String> = vec![];
        if inner_level < w.requires {
            pre.push("(".to_owned());
            post.push(")".to_owned());
        }
        for t in w.post.split_whitespace() {
            post.push(t.replace('@', &var));
        }
        post_rev.push(post);
    }
    pre.push("x".to_owned());
    for p in post_rev.into_iter().rev() {
        pre.extend(p);
    }
    pre
}

fn variant(tokens: &[String], a_post_len: usize, v: usize) -> Vec<String> {
    let n = tokens.len();
    match v {
        0 => tokens.to_vec(),
        1 => tokens[..n - a_post_len.min(n - 1)].to_vec(),
        2..=4 => tokens[..n.saturating_sub(v - 1).max(1)].to_vec(),
        _ => {
            let mut t = tokens.to_vec();
            let pos = (n * (v - 4) / 4).min(n - 1);
            t[pos] = "}".to_owned();
            t
        }
    }
}

const VARIANTS: usize = 8;
const VARIANT_NAMES: [&str; VARIANTS] =
    ["well-formed", "suffix-dropped", "last-1-dropped", "last-2-dropped", "last-3-dropped", "wrong-token-at-1/4", "wrong-token-at-1/2", "wrong-token-at-3/4"];

fn measure(text: &str) -> Result<(u64, f64, bool), String> {
    // CPU time of this thread, not wall-clock time: the verdict must not depend on the machine's load
    let start = crate::infra::thread_cpu_s();
    let a0 = allocations();
    let r = guard(|| {
        let tokens = crate::tokenizer::tokenize(None, text);
        match tokens {
            Err(_) => false,
            Ok(tokens) => {
                let tokens_ref: &[crate::token::Token] = &tokens;
                // SAFETY: as in bind::with_tokens, the slice only needs to outlive this call.
                let tokens_ref: &'static [crate::token::Token<'static>] = unsafe { std::mem::transmute(tokens_ref) };
                let text_ref: &'static str = unsafe { std::mem::transmute(text) };
                let r = crate::parser::parse(None, text_ref, tokens_ref, &["x", "f"]);
                let ok = r.is_ok();
                drop(r);
                ok
            }
        }
    });
    let work = allocations() - a0;
    match r {
        Ok(accepted) => {
            let secs = crate::infra::thread_cpu_s() - start;
            crate::infra::max_named("max.rung_user_cpu_ms", (secs * 1000.0) as u64);
            Ok((work, secs, accepted))
        }
        Err(m) => Err(m),
    }
}

fn ladder_sweep(tier: Tier) -> Sweep {
    let ws = wrappers();
    let nw = ws.len();
    // period-1 families first (a == b), then period 2
    let mut fams: Vec<(usize, usize)> = (0..nw).map(|i| (i, i)).collect();
    for a in 0..nw {
        for b in 0..nw {
            if a != b {
                fams.push((a, b));
            }
        }
    }
    let max_n = tier.pick(512, 4096);
    let cap_s = tier.pick(8.0, 90.0);
    let fams2 = fams.clone();
    Sweep::new(
        "input families x variants, ladder of sizes",
        (fams.len() * VARIANTS) as u64,
        move |idx| {
            let ws = wrappers();
            let (a, b) = fams[idx as usize / VARIANTS];
            let v = idx as usize % VARIANTS;
            count!("evaluations");
            count!("families_x_variants");
            let mut n = 1;
            let mut prev: Option<(usize, u64)> = None;
            let mut worst_ratio = 0f64;
            while n <= max_n {
                let toks = family(&ws, a, b, n);
                let post_len: usize = (0..n).map(|i| ws[if i % 2 == 0 { a } else { b }].post.split_whitespace().count()).sum();
                let toks = variant(&toks, post_len, v);
                let text = toks.join(" ");
                count!("rungs");
                crate::infra::max_named("max.tokens", toks.len() as u64);
                match measure(&text) {
                    Err(m) => {
                        violation("parse-panic", &format!("family {}/{} {} n={n}", ws[a].name, ws[b].name, VARIANT_NAMES[v]), "no panic", &m);
                        return;
                    }
                    Ok((work, secs, accepted)) => {
                        if v == 0 {
                            if accepted {
                                count!("wellformed_accepted");
                            } else {
                                crate::infra::machinery(&format!("family {}/{} is not well formed at n={n}: {}", ws[a].name, ws[b].name, crate::infra::clip(&text, 200)));
                                return;
                            }
                        } else if !accepted {
                            count!("malformed_rejected");
                        }
                        if secs > cap_s {
                            violation(
                                "time-cap",
                                &format!("family {}/{} {} n={n} ({} tokens)", ws[a].name, ws[b].name, VARIANT_NAMES[v], toks.len()),
                                &format!("tokenize+parse within {cap_s} s of CPU time"),
                                &format!("{secs:.1} s, {work} allocations"),
                            );
                            return;
                        }
                        if toks.len() >= 100 {
                            let t = toks.len() as f64;
                            crate::infra::max_named("max.work_per_token_squared_x1000", (work as f64 * 1000.0 / (t * t)) as u64);
                            if v == 0 {
                                crate::infra::max_named("max.wellformed_work_per_token", (work as f64 / t) as u64);
                            }
                        }
                        // (2) absolute polynomial envelope, every variant
                        let t = toks.len() as u64;
                        if work > 40 * t * t + 200_000 {
                            violation(
                                "work-envelope",
                                &format!("family {}/{} {} n={n} ({t} tokens)", ws[a].name, ws[b].name, VARIANT_NAMES[v]),
                                "allocations <= 40 * tokens^2 + 200000",
                                &format!("{work} allocations"),
                            );
                            return;
                        }
                        // (3) growth of the well-formed variant (its regime is stable: always a full parse)
                        if v == 0
                            && let Some((pn, pw)) = prev
                            && pn >= 64
                        {
                            let ratio = work as f64 / pw.max(1) as f64;
                            worst_ratio = worst_ratio.max(ratio);
                            if work > 6 * pw.max(1) {
                                violation(
                                    "growth",
                                    &format!("family {}/{} {} n={pn}->{n}", ws[a].name, ws[b].name, VARIANT_NAMES[v]),
                                    "work(2n) <= 6 work(n) for well-formed input",
                                    &format!("work({pn}) = {pw}, work({n}) = {work}"),
                                );
                                return;
                            }
                        }
                        prev = Some((n, work));
                    }
                }
                n *= 2;
            }
            crate::infra::max_named("max.wellformed_worst_doubling_ratio_x100", (worst_ratio * 100.0) as u64);
            count!("nontrivial");
            if idx % 397 == 0 {
                let s = family(&ws, a, b, 3).join(" ");
                crate::infra::sample("family(n=3)", || json!({"family": format!("{}/{}", ws[a].name, ws[b].name), "variant": VARIANT_NAMES[v], "text": s}));
            }
        },
        move |idx| {
            let ws = wrappers();
            let (a, b) = fams2[idx as usize / VARIANTS];
            format!("family {}/{} variant {} e.g. n=3: {}", ws[a].name, ws[b].name, VARIANT_NAMES[idx as usize % VARIANTS], family(&ws, a, b, 3).join(" "))
        },
    )
    .with_timeout(tier.pick(20, 600))
    .with_post_abort(|_idx, kind| AbortVerdict::Violation {
        sub: "no-termination-within-cap".to_owned(),
        input: String::new(),
        expected: "every rung of the ladder finishes within the cap".to_owned(),
        actual: format!("worker ended abnormally: {kind}"),
    })
}

// Definition groups as reference graphs: n definitions d0 .. d(n-1); definition i mentions d(i+o) for
// every offset o of the family's offset set that stays in range. Three kind patterns (all lambdas;
// a non-value head followed by lambdas; all non-values), every non-empty offset set within
// { -2, -1, +1, +2, +3 }, the body either d0 or the last definition, three variants.
const OFFSETS: [i64; 5] = [-2, -1, 1, 2, 3];
const KIND_PATTERNS: [&str; 3] = ["all-lambdas", "non-value-head-then-lambdas", "all-non-values"];
const GROUP_VARIANTS: [&str; 3] = ["complete", "last-token-dropped", "wrong-token-at-1/2"];

fn group_program(kinds: usize, offsets: usize, body_last: bool, n: usize) -> Vec<String> {
    let mut t: Vec<String> = vec![];
    for i in 0..n {
        let mut mentions: Vec<String> = vec![];
        for (b, o) in OFFSETS.iter().enumerate() {
            let j = i as i64 + o;
            if offsets & (1 << b) != 0 && j >= 0 && (j as usize) < n {
                mentions.push(format!("d{j}"));
            }
        }
        let lambda = match kinds {
            0 => true,
            1 => i > 0,
            _ => false,
        };
        t.push(format!("d{i}"));
        t.push("=".to_owned());
        if lambda {
            t.extend(["(", "p", "=>"].map(str::to_owned));
            t.push("p".to_owned());
            for m in &mentions {
                t.push("+".to_owned());
                t.push(m.clone());
                t.push("p".to_owned());
            }
            t.push(")".to_owned());
        } else {
            t.push("1".to_owned());
            for m in &mentions {
                t.push("+".to_owned());
                t.push(m.clone());
                if kinds == 1 {
                    t.push("7".to_owned());
                }
            }
        }
        t.push(";".to_owned());
    }
    t.push(if body_last { format!("d{}", n - 1) } else { "d0".to_owned() });
    t
}

fn group_sweep(tier: Tier) -> Sweep {
    let max_n = tier.pick(256, 1024);
    let cap_s = tier.pick(8.0, 90.0);
    let describe = |idx: u64| {
        let v = idx as usize % 3;
        let body_last = (idx / 3) % 2 == 1;
        let offsets = ((idx / 6) % 31 + 1) as usize;
        let kinds = (idx / 6 / 31) as usize;
        (v, body_last, offsets, kinds)
    };
    Sweep::new(
        "definition groups as reference graphs, ladder of sizes",
        3 * 2 * 31 * 3,
        move |idx| {
            let (v, body_last, offsets, kinds) = describe(idx);
            count!("evaluations");
            count!("group_families_x_variants");
            let name = |n: usize| format!("definition group {} offsets {:?} body {} {} n={n}", KIND_PATTERNS[kinds], OFFSETS.iter().enumerate().filter(|(b, _)| offsets & (1 << b) != 0).map(|(_, o)| *o).collect::<Vec<_>>(), if body_last { "last" } else { "first" }, GROUP_VARIANTS[v]);
            let mut n = 1;
            while n <= max_n {
                let mut toks = group_program(kinds, offsets, body_last, n);
                match v {
                    1 => {
                        toks.pop();
                    }
                    2 => {
                        let m = toks.len() / 2;
                        toks[m] = "}".to_owned();
                    }
                    _ => {}
                }
                let text = toks.join(" ");
                count!("rungs");
                crate::infra::max_named("max.group_tokens", toks.len() as u64);
                match measure(&text) {
                    Err(m) => {
                        violation("parse-panic", &name(n), "no panic", &m);
                        return;
                    }
                    Ok((work, secs, accepted)) => {
                        if accepted {
                            count!("groups_accepted");
                        } else {
                            count!("groups_rejected");
                        }
                        if secs > cap_s {
                            violation("time-cap", &format!("{} ({} tokens)", name(n), toks.len()), &format!("tokenize+parse within {cap_s} s of CPU time"), &format!("{secs:.1} s, {work} allocations"));
                            return;
                        }
                        let t = toks.len() as u64;
                        if t >= 100 {
                            crate::infra::max_named("max.group_work_per_token_squared_x1000", (work as f64 * 1000.0 / (t * t) as f64) as u64);
                        }
                        if work > 40 * t * t + 200_000 {
                            violation("work-envelope", &format!("{} ({t} tokens)", name(n)), "allocations <= 40 * tokens^2 + 200000", &format!("{work} allocations"));
                            return;
                        }
                    }
                }
                n *= 2;
            }
            count!("nontrivial");
            if idx % 97 == 0 {
                let s = group_program(kinds, offsets, body_last, 4).join(" ");
                crate::infra::sample("group(n=4)", || json!({"family": name(4), "text": s}));
            }
        },
        move |idx| {
            let (v, body_last, offsets, kinds) = describe(idx);
            format!("group family kinds={} offsets-mask={offsets} body_last={body_last} variant={} e.g. n=4: {}", KIND_PATTERNS[kinds], GROUP_VARIANTS[v], group_program(kinds, offsets, body_last, 4).join(" "))
        },
    )
    .with_timeout(tier.pick(20, 600))
    .with_post_abort(|_idx, kind| AbortVerdict::Violation {
        sub: "no-termination-within-cap".to_owned(),
        input: String::new(),
        expected: "every rung of the ladder finishes within the cap".to_owned(),
        actual: format!("worker ended abnormally: {kind}"),
    })
}

// Lexical families: one long token or one long run of layout, where the parser sees a handful of
// tokens and all the length is the tokenizer's. T is the length in characters.
const LEXICAL: [(&str, &str, &str, &str, bool); 14] = [
    // name, prefix, repeated unit, suffix, small (families whose diagnostics quote the whole line n times)
    ("identifier", "", "a", "", false),
    ("identifier of 2-byte letters", "", "é", "", false),
    ("integer literal", "", "7", "", false),
    ("comment", "x #", "c", "\n", false),
    ("comment of 4-byte characters at end of file", "x #", "𝔘", "", false),
    ("spaces", "x", " ", "x", false),
    ("tabs before a line break", "x", "\t", "\nx", false),
    ("line breaks", "x", "\n", "x", false),
    ("CRLF line breaks", "x", "\r\n", "x", false),
    ("comment lines", "x", "# c\n", "x", false),
    ("definitions one per line", "", "a = 1\n", "a", false),
    ("stray symbols on one line", "", "$", "", true),
    ("stray symbols one per line", "", "$\n", "", true),
    ("operators without operands", "", "+ ", "", true),
];

fn lexical_sweep(tier: Tier) -> Sweep {
    let max_n = tier.pick(4096, 65536);
    let max_small = tier.pick(1024, 4096);
    let cap_s = tier.pick(8.0, 90.0);
    Sweep::new(
        "lexical families (one long token or layout run), ladder of sizes",
        LEXICAL.len() as u64,
        move |idx| {
            let (name, pre, unit, post, small) = LEXICAL[idx as usize];
            count!("evaluations");
            count!("lexical_families");
            let mut n = 1;
            while n <= if small { max_small } else { max_n } {
                let text = format!("{pre}{}{post}", unit.repeat(n));
                let t = text.chars().count() as u64;
                count!("rungs");
                crate::infra::max_named("max.lexical_characters", t);
                match measure(&text) {
                    Err(m) => {
                        violation("parse-panic", &format!("lexical family {name} n={n}"), "no panic", &m);
                        return;
                    }
                    Ok((work, secs, _)) => {
                        if secs > cap_s {
                            violation("time-cap", &format!("lexical family {name} n={n} ({t} characters)"), &format!("tokenize+parse within {cap_s} s of CPU time"), &format!("{secs:.1} s, {work} allocations"));
                            return;
                        }
                        if work > 40 * t * t + 200_000 {
                            violation("work-envelope", &format!("lexical family {name} n={n} ({t} characters)"), "allocations <= 40 * characters^2 + 200000", &format!("{work} allocations"));
                            return;
                        }
                        if t >= 100 {
                            crate::infra::max_named("max.lexical_work_per_character_x1000", work * 1000 / t);
                        }
                    }
                }
                n *= 2;
            }
            count!("nontrivial");
        },
        move |idx| format!("lexical family {}", LEXICAL[idx as usize].0),
    )
    .with_timeout(tier.pick(30, 600))
    .with_post_abort(|_idx, kind| AbortVerdict::Violation {
        sub: "no-termination-within-cap".to_owned(),
        input: String::new(),
        expected: "every rung of the ladder finishes within the cap".to_owned(),
        actual: format!("worker ended abnormally: {kind}"),
    })
}

impl Prop for C17 {
    fn id(&self) -> &'static str {
        "C17"
    }
    fn stack_mb(&self) -> usize {
        2048
    }
    fn sweeps(&self, tier: Tier) -> Vec<Sweep> {
        vec![ladder_sweep(tier), group_sweep(tier), lexical_sweep(tier)]
    }
    fn evidence(&self, tier: Tier) -> EvidenceSpec {
        EvidenceSpec {
            level: "exploration",
            rule: "all input families of period 1 and 2 over 41 syntactic wrappers (parentheses, sums left/right, differences, negation, products, application left/right, comparison, let / annotated let / let nested in a definition, if nested in the else / then / condition position, the four lambda forms and the annotation position, pi, arrows left/right, application / sum / product chains ending in two parenthesised operands nested through either of them, a parenthesised operand in the middle of a chain for ten pairs of operators around it, and groups of two and three members whose body is a parenthesised group of its own or whose first definition is one), i.e. 41 + 1640 families, each in 8 variants (well formed; suffix dropped; last 1, 2, 3 tokens dropped; a wrong token planted at 1/4, 1/2, 3/4), on the ladder n = 1, 2, 4, .., 512 (quick) / 4096 (thorough); the real tokenize+parse is run on a 2 GiB stack and its heap allocations counted; every rung must finish within the cap (user-mode CPU time of the parsing thread, so machine load and kernel-side memory contention do not matter), every rung must satisfy allocations <= 40 tokens^2 + 200000 (measured on the unchanged tree: <= 2 tokens^2), and well-formed variants must satisfy work(2n) <= 6 work(n) from n >= 64 (measured: 2.00). Second sweep, long definition sequences as reference graphs: groups of n = 1, 2, 4, .., 256 (quick) / 1024 (thorough) definitions where definition i mentions d(i+o) for every o of an offset set, for all 31 non-empty offset sets within {-2,-1,+1,+2,+3}, three kind patterns (all lambdas; a non-value head then lambdas; all non-values), body d0 or the last definition, three variants (complete, last token dropped, wrong token in the middle) — 558 families x variants under the same time cap and envelope (measured: <= 0.7 tokens^2). Third sweep, 14 lexical families (one long identifier, literal, comment, run of blanks / tabs / line breaks / CRLF / comment lines, one definition per line, stray symbols, operators without operands) to 4096 / 65536 repetitions (1024 / 4096 where every diagnostic quotes the line), with characters in the place of tokens. evaluations = families x variants; non-trivial = those whose whole ladder was measured".to_owned(),
            assumptions: vec![
                "a growth law on a finite ladder is evidence of the law, not a proof for all n".to_owned(),
                "heap allocations are proportional to parse-function executions (every constructed term, cache insert and error closure allocates)".to_owned(),
            ],
            evaluations: "evaluations",
            nontrivial: "nontrivial",
            states: None,
            transitions: None,
            traces: None,
            exhaustive: true,
            bounds: json!({"max_n": tier.pick(512, 4096), "time_cap_s": tier.pick(8.0, 90.0), "wellformed_growth_factor": 6, "envelope": "40*T^2+200000"}),
            minimums: vec![("wellformed_accepted", 5000), ("malformed_rejected", 10_000), ("rungs", 40_000), ("group_families_x_variants", 558), ("groups_accepted", 500), ("groups_rejected", 500)],
        }
    }
}
