// C13 — output is a deterministic function of the input file.
//
// (1) Choice-tree exploration (stateless DFS) of the one environment nondeterminism in gram: the
// iteration order of the hash set in parser::check_definition, owned through hook H1. Every
// permutation at every choice point is enumerated for every program of the definition-order family;
// all leaves of a program's tree must carry the same result, byte for byte.
// (2) Ownership proof (repeat-run differential, labelled as such): the real binary, hooks off, is
// launched several times per file; each launch has a fresh hash seed.
use crate::{
    bind::{self, Front},
    infra::{EvidenceSpec, Prop, Sweep, Tier, violation},
    model::mterm::mirror,
    props::c14,
};
use serde_json::json;
use std::{rc::Rc, time::Duration};

pub struct C13;

#[derive(Clone, Copy, PartialEq, Debug)]
enum Kind {
    Lit,
    Lam,
    NonValue,
}

// The definition-order family: groups of k definitions d0..d(k-1), each a literal, a lambda whose
// body mentions a subset of the group, or a non-value expression mentioning a subset of the group.
pub struct Family {
    pub k: usize,
    per_def: u64,
}

impl Family {
    pub fn new(k: usize) -> Family {
        Family { k, per_def: 1 + 2 * (1u64 << k) }
    }
    pub fn count(&self) -> u64 {
        self.per_def.pow(self.k as u32) * self.k as u64 * 3
    }
    // (program text, number of tokens)
    pub fn program(&self, mut idx: u64) -> String {
        // 0: at top level; 1: nested in a called function; 2: nested, and every non-literal definition
        // also mentions the variables bound outside the group
        let placement = idx % 3;
        idx /= 3;
        let nested = placement > 0;
        let outer = if placement == 2 { " + q" } else { "" };
        let body = (idx % self.k as u64) as usize;
        idx /= self.k as u64;
        let mut defs = vec![];
        for i in 0..self.k {
            let c = idx % self.per_def;
            idx /= self.per_def;
            let (kind, set) = if c == 0 {
                (Kind::Lit, 0)
            } else if c <= (1 << self.k) {
                (Kind::Lam, c - 1)
            } else {
                (Kind::NonValue, c - 1 - (1 << self.k))
            };
            let mut expr = String::from("1");
            for j in 0..self.k {
                if set & (1 << j) != 0 {
                    expr.push_str(&format!(" + d{j}"));
                }
            }
            let text = match kind {
                Kind::Lit => "1".to_owned(),
                Kind::Lam => format!("(p{i} => {expr}{outer})"),
                Kind::NonValue => {
                    if set == 0 {
                        format!("1 + 1{outer}")
                    } else {
                        format!("{expr}{outer}")
                    }
                }
            };
            defs.push(format!("d{i} = {text}"));
        }
        let group = format!("{}; d{body}", defs.join("; "));
        if nested { format!("f = (q => r => ({group})); f 1 2") } else { group }
    }
}

#[derive(PartialEq, Eq, Clone, Debug)]
enum Observation {
    Ok(String),
    Err(Vec<String>),
    Panic(String),
}

fn observe(src: &str, prefix: Vec<usize>) -> (Observation, Vec<usize>) {
    crate::verif_hooks::install_order_explorer(prefix);
    let obs = bind::with_front(src, &[], 2, |f| match f {
        Front::Panic { message, .. } => Observation::Panic(message),
        Front::TokenizeErr(e) | Front::ParseErr { errors: e, .. } => Observation::Err(bind::messages(&e)),
        Front::TypeErr { term, .. } | Front::Ok { term, .. } => Observation::Ok(mirror(term).key()),
    });
    let ex = crate::verif_hooks::take_order_explorer().unwrap();
    (obs, ex.arities)
}

// Stateless DFS over the choice tree of one program. Returns the number of leaves.
pub fn explore(src: &str, max_leaves: usize) -> usize {
    let (first, _) = observe(src, vec![]);
    let mut leaves = 0;
    let mut stack: Vec<Vec<usize>> = vec![vec![]];
    let mut max_arity = 1;
    let mut points = 0;
    while let Some(prefix) = stack.pop() {
        let (obs, arities) = observe(src, prefix.clone());
        count!("transitions", arities.len().max(1));
        // a replayed prefix must meet the same arities (else some nondeterminism is not owned)
        leaves += 1;
        count!("states");
        points = points.max(arities.len());
        for a in &arities {
            max_arity = max_arity.max(*a);
        }
        if obs != first {
            // replay the same schedule once more before trusting the difference
            let (again, _) = observe(src, prefix.clone());
            if again != obs {
                crate::infra::machinery(&format!("schedule {prefix:?} of {src:?} is not reproducible: uncontrolled nondeterminism"));
                return leaves;
            }
            let kind = match (&first, &obs) {
                (Observation::Err(a), Observation::Err(b)) => {
                    let (mut x, mut y) = (a.clone(), b.clone());
                    x.sort();
                    y.sort();
                    if x == y { "diagnostic-order" } else { "diagnostic-content" }
                }
                _ => "verdict",
            };
            violation(
                &format!("order-dependent-{kind}"),
                src,
                &format!("the same result under every iteration order; with the default order: {first:?}"),
                &format!("with choices {prefix:?}: {obs:?}"),
            );
            return leaves;
        }
        if leaves >= max_leaves {
            count!("capped_trees");
            break;
        }
        // children: at every point after the prefix, every alternative
        for i in prefix.len()..arities.len() {
            for alt in 1..arities[i] {
                let mut p = prefix.clone();
                p.resize(i, 0);
                p.push(alt);
                stack.push(p);
            }
        }
    }
    count!("traces_validated", leaves);
    if max_arity >= 6 {
        count!("trees_with_arity_ge_6");
    }
    if max_arity >= 2 {
        count!("trees_with_a_choice");
    }
    crate::infra::max_named("max.choice_points", points as u64);
    crate::infra::max_named("max.leaves", leaves as u64);
    leaves
}

// `stride` 1 = the whole family; 12 = only the top-level placement with d0 as the body (k = 4).
fn tree_sweep(k: usize, leaf_cap: usize, stride: u64) -> Sweep {
    let fam = Rc::new(Family::new(k));
    let f2 = fam.clone();
    if !crate::HAS_VERIF_HOOKS {
        crate::infra::machinery_exit("the verif hooks (src/verif_hooks.rs) are missing from /repo");
    }
    Sweep::new(
        &format!("choice trees of the definition-order family, k = {k}{}", if stride > 1 { " (top-level placement, body d0)" } else { "" }),
        fam.count() / stride,
        move |idx| {
            let src = fam.program(idx * stride);
            count!("evaluations");
            let leaves = explore(&src, leaf_cap);
            if leaves > 1 {
                count!("nontrivial");
            }
            if idx % 9973 == 5 {
                crate::infra::sample("program", || json!({"source": src, "leaves": leaves}));
            }
        },
        move |idx| f2.program(idx * stride),
    )
}

// Everything a launch of `gram run` would show for `src`, computed in process: the diagnostics of the
// first failing stage with their listings, or the elaborated term, its type and the end of evaluation.
fn full_observation(src: &str) -> String {
    bind::with_front(src, &[], 3, |f| match f {
        Front::Panic { stage, message } => format!("panic in {stage}: {message}"),
        Front::TokenizeErr(e) => format!("tokenize-error\n{}", bind::messages(&e).join("\n")),
        Front::ParseErr { errors, .. } => format!("parse-error\n{}", bind::messages(&errors).join("\n")),
        Front::TypeErr { errors, .. } => format!("type-error\n{}", bind::messages(&errors).join("\n")),
        Front::Ok { elab, ty, .. } => {
            let (end, how, steps) = bind::run_steps(elab, 300, |_, _| {});
            let how = match how {
                bind::RunEnd::Value => "value".to_owned(),
                bind::RunEnd::Stuck => "stuck".to_owned(),
                bind::RunEnd::Horizon => "horizon".to_owned(),
                bind::RunEnd::Panic(m) => format!("panic {m}"),
            };
            format!("ok\n{elab}\n{ty}\n{how} after {steps}: {end}")
        }
    })
}

// The multi-diagnostic family: programs that make each stage report several diagnostics at once, so
// that any order or content that depends on a hash seed has something to show.
//   0: strings over { $ ? @ x ' ' } of length <= 5 (tokenizer diagnostics)
//   1: (a : int) => (b : int) => (n1 = e1; n2 = e2; n3 = e3; 0), n_i in { a b x y z } (clashes with the
//      binders and with each other), e_i in { 1, u, v, u + v, w + u } (unbound names)
//   2: p = T1; q = T2; r = T3; 0 with T_i ill-typed pieces (type diagnostics)
//   3: the definition-order family with k = 2 and every 7th program of k = 3
pub struct DiagFamily {
    tok: u64,
    scope: u64,
    ty: u64,
    // 2b: p : A1 = 1; q : A2 = 2; r : A3 = 3; 0 with the *annotations* drawn from the ill-typed pieces
    //     (several annotation diagnostics for one group), at top level and under binders
    ann: u64,
    order2: Family,
    order3: Family,
    // 4: well-typed programs with aliases, recursive groups, forward references and nested groups
    //    (the families of the evaluation checks), which exercise the type checker and the evaluator
    typed: Vec<String>,
}

const TOK_SYMS: [&str; 5] = ["$", "?", "@", "x", " "];
const SCOPE_NAMES: [&str; 5] = ["a", "b", "x", "y", "z"];
const SCOPE_EXPRS: [&str; 5] = ["1", "u", "v", "u + v", "w + u"];
const TYPE_PIECES: [&str; 6] = ["1", "1 + true", "if 1 then 2 else 3", "1 2", "true * false", "(k : int) => k k"];

impl DiagFamily {
    pub fn new() -> DiagFamily {
        let mut typed: Vec<String> = crate::props::sem::alias_family(3).into_iter().map(|(_, s, _)| s).collect();
        typed.extend(crate::props::sem::nested_family());
        // dependent types whose printed form depends on which variables occur where (a function type
        // whose codomain mentions its own binder and variables bound further out), accepted and rejected
        for p in [
            "(p : int -> type) => (h : (y : int) -> p y) => (x : int) => h x",
            "(a : type) => (p : a -> type) => (x : a) => (h : (y : a) -> p y) => h x",
            "(a : type) => (b : type) => (f : (x : a) -> (y : b) -> a) => f",
            "(p : int -> int -> type) => (h : (x : int) -> (y : int) -> p x y) => h 1",
            "(a : type) => (p : a -> type) => (q : (x : a) -> p x -> type) => (x : a) => (u : p x) => q x u",
            "(p : int -> type) => (h : (y : int) -> p y) => h true",
            "(a : type) => (p : a -> type) => (x : a) => (h : (y : a) -> p y) => h h",
            "eq : ((t : type) -> t -> t -> type) = (t : type) => (x : t) => (y : t) => (q : t -> type) -> q x -> q y; refl : ((t : type) -> (x : t) -> eq t x x) = (t : type) => (x : t) => (q : t -> type) => (u : q x) => u; refl int 3",
        ] {
            typed.push(p.to_owned());
        }
        typed.extend(value_first_programs());
        if let Ok(rd) = std::fs::read_dir(format!("{}/examples", crate::infra::repo_dir())) {
            let mut paths: Vec<_> = rd.filter_map(|e| e.ok()).map(|e| e.path()).collect();
            paths.sort();
            for path in paths {
                let name = path.file_name().unwrap().to_string_lossy().to_string();
                if name.contains("infinite") || name.contains("girard") {
                    continue;
                }
                if let Ok(text) = std::fs::read_to_string(&path) {
                    typed.push(text);
                }
            }
        }
        DiagFamily { tok: (1..=5).map(|n| 5u64.pow(n)).sum(), scope: 125 * 125, ty: 216, ann: 216 * 2, order2: Family::new(2), order3: Family::new(3), typed }
    }
    pub fn count(&self) -> u64 {
        self.tok + self.scope + self.ty + self.ann + self.order2.count() + self.order3.count().div_ceil(7) + self.typed.len() as u64
    }
    pub fn program(&self, mut idx: u64) -> String {
        if idx < self.tok {
            let mut len = 1;
            while idx >= 5u64.pow(len) {
                idx -= 5u64.pow(len);
                len += 1;
            }
            let mut s = String::new();
            for _ in 0..len {
                s.push_str(TOK_SYMS[(idx % 5) as usize]);
                idx /= 5;
            }
            return s;
        }
        idx -= self.tok;
        if idx < self.scope {
            let mut defs = vec![];
            for _ in 0..3 {
                let n = SCOPE_NAMES[(idx % 5) as usize];
                idx /= 5;
                let e = SCOPE_EXPRS[(idx % 5) as usize];
                idx /= 5;
                defs.push(format!("{n} = {e}"));
            }
            return format!("(a : int) => (b : int) => ({}; 0)", defs.join("; "));
        }
        idx -= self.scope;
        if idx < self.ty {
            let mut defs = vec![];
            for n in ["p", "q", "r"] {
                defs.push(format!("{n} = {}", TYPE_PIECES[(idx % 6) as usize]));
                idx /= 6;
            }
            return format!("{}; 0", defs.join("; "));
        }
        idx -= self.ty;
        if idx < self.ann {
            let nested = idx % 2 == 1;
            idx /= 2;
            let mut defs = vec![];
            for (n, v) in [("p", "1"), ("q", "2"), ("r", "3")] {
                defs.push(format!("{n} : ({}) = {v}", TYPE_PIECES[(idx % 6) as usize]));
                idx /= 6;
            }
            let group = format!("{}; 0", defs.join("; "));
            return if nested { format!("{{a : type}} => (k : a -> int) => (s : a) => ({group})") } else { group };
        }
        idx -= self.ann;
        if idx < self.order2.count() {
            return self.order2.program(idx);
        }
        idx -= self.order2.count();
        if idx < self.order3.count().div_ceil(7) {
            return self.order3.program(idx * 7);
        }
        idx -= self.order3.count().div_ceil(7);
        self.typed[idx as usize].clone()
    }
}

// Groups whose first definition is computed and mentions several later function definitions (which the
// evaluator substitutes ahead of it), with function-valued and integer results: the printed value
// shows the order in which the functions were substituted.
pub fn value_first_programs() -> Vec<String> {
    let firsts = ["h : (int -> bool) = if 1 == 1 then even else odd", "h : (int -> bool) = if odd 3 then even else odd", "h : (int -> bool) = (q : (int -> bool) = odd; if even 2 then q else even)"];
    let functions = [
        "even : (int -> bool) = (n : int) => if n == 0 then true else odd (n - 1); odd : (int -> bool) = (n : int) => if n == 0 then false else even (n - 1)",
        "odd : (int -> bool) = (n : int) => if n == 0 then false else even (n - 1); even : (int -> bool) = (n : int) => if n == 0 then true else odd (n - 1)",
        "even : (int -> bool) = (n : int) => n == 0; odd : (int -> bool) = (n : int) => if n == 0 then false else even (n - 1)",
        "even : (int -> bool) = (n : int) => n == 0; third : (int -> bool) = (n : int) => odd n; odd : (int -> bool) = (n : int) => n == 1",
    ];
    let bodies = ["h", "even", "odd", "h 3", "(n : int) => h n"];
    let mut out = vec![];
    for f in firsts {
        for g in functions {
            for b in bodies {
                out.push(format!("{f}; {g}; {b}"));
            }
        }
    }
    out
}

// Repeat-run differential in process: std's RandomState takes its keys from a per-thread pair that is
// incremented for every new container, so each repetition of the pipeline on the same text gives every
// hash container in gram different keys (the in-process counterpart of launching the binary again;
// the launch sweep below does that too, for fewer files).
fn thread_sweep(tier: Tier) -> Sweep {
    let fam = Rc::new(DiagFamily::new());
    let f2 = fam.clone();
    let repeats = tier.pick(5, 12);
    Sweep::new(
        "repeat-run differential over the multi-diagnostic family (fresh hash keys per repetition)",
        fam.count(),
        move |idx| {
            let src = fam.program(idx);
            count!("evaluations");
            let mut first: Option<String> = None;
            for r in 0..repeats {
                let obs = full_observation(&src);
                count!("repeat_runs");
                match &first {
                    None => first = Some(obs),
                    Some(f) => {
                        if *f != obs {
                            violation(
                                "different-output-across-hash-seeds",
                                &src,
                                &format!("the same output on every repetition; first run: {}", crate::infra::clip(f, 1500)),
                                &format!("repetition {r}: {}", crate::infra::clip(&obs, 1500)),
                            );
                            return;
                        }
                    }
                }
            }
            let f = first.unwrap_or_default();
            if f.matches("[Error]").count() >= 2 || f.lines().filter(|l| l.starts_with("Variable") || l.contains("Unexpected")).count() >= 2 {
                count!("multi_diagnostic_programs");
            }
            if !f.starts_with("ok") {
                count!("nontrivial");
            }
        },
        move |idx| f2.program(idx),
    )
}

// Two stray tokens in one sentence: every sentence of the class alphabet up to 5 [6] tokens and of the
// conditional / definition slice from 6 to 8 [9] tokens, with two tokens inserted at every pair of
// positions (four pairs of kinds), so that several recovery diagnostics are produced, some of them by one
// and the same node of the parse tree. Tokenising and parsing are repeated (fresh hash keys each time);
// the diagnostics must be the same, in the same order, every time.
fn double_edit_sweep(what: &'static str, g: crate::model::grammar::Grammar, min_len: usize, max_len: usize, stride: u64) -> Sweep {
    use crate::enumerate::{Sentences, name_simple};
    use crate::model::tok::{self, K, Tok};
    let sentences = Rc::new(std::cell::RefCell::new(Sentences::new(g.clone(), min_len, max_len)));
    let total = sentences.borrow().total.div_ceil(stride);
    let s2 = sentences.clone();
    let g2 = g.clone();
    const PAIRS: [(K, K); 4] = [(K::Colon, K::Colon), (K::Colon, K::RightParen), (K::Identifier, K::Then), (K::Equals, K::Else)];
    Sweep::new(
        &format!("sentences of {min_len}..{max_len} tokens ({what}) with two stray tokens inserted, parsed repeatedly"),
        total,
        move |i| {
            let tree = sentences.borrow_mut().tree(i * stride);
            let toks = name_simple(&g, &tree);
            let n = toks.len();
            for p in 0..=n {
                for q in p..=n {
                    for (k1, k2) in PAIRS {
                        let mut d = toks.clone();
                        d.insert(q, Tok::new(k2));
                        d.insert(p, Tok::new(k1));
                        count!("evaluations");
                        count!("double_edits");
                        let (src, ranges) = tok::layout(&d);
                        let real = tok::real_tokens(&src, &d, &ranges);
                        let mut first: Option<Vec<String>> = None;
                        for r in 0..3 {
                            let obs = bind::with_tokens(&src, &real, &[], 2, |f| match f {
                                Front::Panic { message, .. } => vec![format!("panic: {message}")],
                                Front::ParseErr { errors, .. } => bind::messages(&errors),
                                _ => vec![],
                            });
                            count!("repeat_runs");
                            match &first {
                                None => first = Some(obs),
                                Some(f) => {
                                    if *f != obs {
                                        violation("different-output-across-hash-seeds", &src, &format!("the same diagnostics on every repetition; first: {}", crate::infra::clip(&f.join(" | "), 1200)), &format!("repetition {r}: {}", crate::infra::clip(&obs.join(" | "), 1200)));
                                        return;
                                    }
                                }
                            }
                        }
                        let f = first.unwrap_or_default();
                        if f.len() >= 2 {
                            count!("multi_diagnostic_programs");
                            count!("double_edit_multi_diagnostic");
                            count!("nontrivial");
                        }
                    }
                }
            }
        },
        move |i| {
            let tree = s2.borrow_mut().tree(i * stride);
            format!("two stray tokens in: {}", tok::layout(&name_simple(&g2, &tree)).0)
        },
    )
}

// Programs with several definition-order diagnostics, for the process-level differential.
fn multi_diagnostic_programs() -> Vec<String> {
    let mut v = vec![
        "x = y + z + w; y = 1 + 1; z = 1 + 1; w = 1 + 1; x".to_owned(),
        "a = b + c; b = c + 1; c = 1 + 1; a".to_owned(),
        "x = y + z; y = z + x; z = x + y; x".to_owned(),
        "f = (q => (x = y + z + w; y = 1 + 1; z = 1 + 1; w = 1 + 1; x)); f 1".to_owned(),
        "x = a + b + c + d + e; a = 1 + 1; b = 1 + 1; c = 1 + 1; d = 1 + 1; e = 1 + 1; x".to_owned(),
        "x = y z w; y = w 1; z = y 1; w = z 1; x".to_owned(),
        "x = 1 + u + v; x".to_owned(),
        "f = (p : int) => (q : int) => (r : int) => (s : int) => (a = b + c + p + q + r + s; b = 1 + 1; c = 2 + 2; a); f 1 2 3 4".to_owned(),
        "(x : int) => x + true + (y => y)".to_owned(),
        // three and four type diagnostics in one run (whatever main.rs does with the list of a stage)
        "p = 1 + true; q = if 1 then 2 else 3; r = 1 2; s = true * false; 0".to_owned(),
        "p : (1 + true) = 1; q : (if 1 then 2 else 3) = 2; r : (1 2) = 3; 0".to_owned(),
        "(f : int -> int) => f true + f (1 2) + (if 3 then 4 else f f)".to_owned(),
        "a = $; b = ?; c = @; d = $; 0".to_owned(),
        "a = u; b = v; c = w; d = u + v + w; 0".to_owned(),
    ];
    v.extend(value_first_programs().into_iter().step_by(7));
    let fam = Family::new(3);
    let mut i = 0;
    while i < fam.count() {
        v.push(fam.program(i));
        i += 1501;
    }
    v
}

fn launch_sweep(tier: Tier) -> Sweep {
    let mut files: Vec<(String, Vec<u8>)> = vec![];
    if let Ok(rd) = std::fs::read_dir(format!("{}/examples", crate::infra::repo_dir())) {
        let mut paths: Vec<_> = rd.filter_map(|e| e.ok()).map(|e| e.path()).collect();
        paths.sort();
        for p in paths {
            if let Ok(b) = std::fs::read(&p) {
                files.push((p.file_name().unwrap().to_string_lossy().to_string(), b));
            }
        }
    }
    for (i, p) in multi_diagnostic_programs().into_iter().enumerate() {
        files.push((format!("multi-{i}"), p.into_bytes()));
    }
    let files = Rc::new(files);
    let f2 = files.clone();
    let repeats = tier.pick(6, 24);
    Sweep::new(
        "repeat-run differential on the real binary (fresh hash seed per launch)",
        files.len() as u64 * 2,
        move |case| {
            let (name, bytes) = &files[(case / 2) as usize];
            let cmd = if case % 2 == 0 { "check" } else { "run" };
            // `run` on programs written to diverge is not a terminating computation
            if cmd == "run" && (name.contains("infinite") || name.contains("girard")) {
                return;
            }
            count!("evaluations");
            let path = format!("{}/c13-{case}.g", c14::scratch_dir());
            std::fs::write(&path, bytes).unwrap();
            let mut first: Option<(Option<i32>, Vec<u8>, Vec<u8>)> = None;
            for r in 0..repeats {
                let l = c14::launch(&[cmd, &path], Duration::from_secs(15));
                count!("launches");
                if l.timed_out {
                    count!("launch_timeouts");
                    return;
                }
                let obs = (l.code, l.stdout, l.stderr);
                match &first {
                    None => first = Some(obs),
                    Some(f) => {
                        if *f != obs {
                            violation(
                                "different-output-across-launches",
                                &format!("gram {cmd} on {name}: {}", String::from_utf8_lossy(bytes)),
                                &format!("exit {:?}, stdout {:?}, stderr {:?}", f.0, String::from_utf8_lossy(&f.1), crate::infra::clip(&String::from_utf8_lossy(&f.2), 1500)),
                                &format!("launch {r}: exit {:?}, stdout {:?}, stderr {:?}", obs.0, String::from_utf8_lossy(&obs.1), crate::infra::clip(&String::from_utf8_lossy(&obs.2), 1500)),
                            );
                            return;
                        }
                    }
                }
            }
            count!("files_identical_across_launches");
            if first.is_some_and(|f| String::from_utf8_lossy(&f.2).matches("[Error]").count() >= 2) {
                count!("multi_diagnostic_files");
            }
        },
        move |case| format!("gram {} on {}", if case % 2 == 0 { "check" } else { "run" }, f2[(case / 2) as usize].0),
    )
    .with_timeout(600)
    .with_max_workers(2)
}

impl Prop for C13 {
    fn id(&self) -> &'static str {
        "C13"
    }
    fn sweeps(&self, tier: Tier) -> Vec<Sweep> {
        let cap = tier.pick(300, 5000);
        let mut v = vec![tree_sweep(2, cap, 1), tree_sweep(3, cap, 1)];
        if tier == Tier::Thorough {
            v.push(tree_sweep(4, 48, 12));
        }
        v.push(thread_sweep(tier));
        {
            use crate::model::grammar::Grammar;
            let g = Grammar::load();
            v.push(double_edit_sweep("class alphabet", g.restrict(&crate::props::c07::class_alphabet(), &[]), 1, tier.pick(5, 6), 1));
            for (name, sg) in crate::props::c07::slices(&g) {
                if name == "if-let" {
                    v.push(double_edit_sweep("conditionals and definitions", sg, 6, tier.pick(8, 9), tier.pick(3, 1)));
                }
            }
        }
        v.push(launch_sweep(tier));
        v
    }
    fn evidence(&self, tier: Tier) -> EvidenceSpec {
        EvidenceSpec {
            level: "model_checking",
            rule: "states = executions of the real `parse` under one complete assignment of iteration orders (a leaf of the choice tree), transitions = choice points answered; the explorer replays a prefix of permutation choices through hook H1 and takes the ascending order afterwards, records the arity n! met at each point and enumerates every alternative (stateless DFS, cap 300 / 5000 leaves per program, the number of capped trees is reported). Space: every group of k <= 3 definitions (thorough: also k = 4 at top level with d0 as the body, cap 48 leaves), each a literal, a lambda mentioning any subset of the group, or a non-value expression mentioning any subset, with each group variable as the body, at top level and nested in a called function. All leaves must be equal (verdict, diagnostics, order). For hash containers that no hook owns (none on the current tree), the whole pipeline (tokenize, parse, type check, evaluate) is repeated 5/12 times in process on every program of the multi-diagnostic family (all strings <= 5 over five symbols with lexical errors; 15625 groups of three definitions clashing with binders and each other and mentioning unbound names; 216 triples of ill-typed definitions; the definition-order family; the alias and nested-group families; dependent-type programs whose printed types mention their own binders and outer variables, 60 programs whose first definition is computed and chooses between later, mutually recursive functions (which the evaluator substitutes ahead of it), and the repository's examples): std gives every new container fresh keys, and every repetition must print the same thing (repeat-run differential, not exhaustive). Separately the real binary (hooks off) is launched 6/24 times on the examples and on multi-diagnostic programs for `check` and `run`; any byte difference between launches is a violation (repeat-run differential, not exhaustive). evaluations = programs + files; non-trivial = programs whose choice tree has more than one leaf Also in the repeat-run differential: groups of three annotated definitions whose ANNOTATIONS are ill-typed pieces (several annotation diagnostics for one group, at top level and under binders), and every sentence of the class alphabet up to 5/6 tokens and of the conditional / definition slice of 6..8/9 tokens with two stray tokens inserted at every pair of positions (four pairs of kinds), tokenised and parsed three times with fresh hash keys (several recovery diagnostics, some on one node of the parse tree).".to_owned(),
            assumptions: vec![
                "hook H1 owns the only iteration over a hash container that reaches an output (grep of non-test code); another site is visible only to the repeat-run differentials, which sample hash keys instead of enumerating orders".to_owned(),
                "ordered containers pass through the hook unchanged, so a repaired tree has no choice points".to_owned(),
            ],
            evaluations: "evaluations",
            nontrivial: "nontrivial",
            states: Some("states"),
            transitions: Some("transitions"),
            traces: Some("traces_validated"),
            exhaustive: true,
            bounds: json!({"max_group_size": tier.pick(3, 4), "leaf_cap_per_program": tier.pick(300, 5000), "launches_per_file": tier.pick(6, 24), "in_process_repetitions": tier.pick(5, 12)}),
            minimums: vec![("states", 10_000), ("files_identical_across_launches", 20), ("multi_diagnostic_files", 5), ("multi_diagnostic_programs", 10_000), ("repeat_runs", 100_000)],
        }
    }
}
