// C05 — fully annotated well-typed programs are accepted; elaboration only fills holes.
use crate::{
    infra::{AbortVerdict, EvidenceSpec, Prop, Sweep, Tier, violation},
    model::{mterm::M, surface},
    props::sem::{self, FrontEnd, RefVerdict},
};
use serde_json::json;
use std::{cell::RefCell, rc::Rc};

pub struct C05;

// One fully annotated program with its reference verdict already known to be "well typed".
pub fn check_annotated(text: &str, expected: Option<&M>, what: &str) {
    sem::front_end(text, |f| match f {
        FrontEnd::Panic { stage, message } => violation(&format!("{stage}-panic"), text, "accepted", &format!("panic: {message}")),
        FrontEnd::Rejected { order_only: true, messages, .. } => {
            // The definition-order check may reject a well-typed program, but only one that really
            // breaks the rule (some non-value definition depends on a definition that is not evaluated
            // before it), as judged by the reference model of the rule on the source read by the
            // grammar model.
            let g = crate::model::grammar::Grammar::load();
            let breaks_rule = surface::parse_text(&g, text).and_then(|s| surface::resolve(&s, &[]).ok()).map(|m| sem::order_rule_violated(&m));
            match breaks_rule {
                Some(false) => violation(
                    "rejected-by-definition-order-check-without-cause",
                    text,
                    &format!("accepted ({what}): every definition a non-value definition depends on is evaluated before it"),
                    &crate::infra::clip(&messages.join(" | "), 600),
                ),
                _ => count!("rejected_by_definition_order_check"),
            }
        }
        FrontEnd::Rejected { stage, messages, .. } => violation(
            "well-typed-annotated-program-rejected",
            text,
            &format!("accepted ({what}; the reference checker derives its type)"),
            &format!("rejected by {stage}: {}", crate::infra::clip(&messages.join(" | "), 600)),
        ),
        FrontEnd::Accepted(acc) => {
            count!("accepted");
            // reported type definitionally equal to the expected one
            if let Some(want) = expected {
                match crate::model::typing::convertible_closed(&acc.ty, want, sem::TYPING_FUEL) {
                    crate::model::typing::Conv::Equal => count!("type_as_expected"),
                    crate::model::typing::Conv::Unknown => count!("skipped_fuel"),
                    crate::model::typing::Conv::Different => {
                        violation("reported-type-differs", text, &want.show(), &acc.ty.show());
                        return;
                    }
                }
            }
            match sem::skeleton_mismatch(&acc.source, &acc.elab) {
                None => {
                    count!("skeleton_preserved");
                    count!("nontrivial");
                    // What `gram check` shows as the elaborated term is that term: read back, the printed
                    // text is again the source program with holes filled in. (Text that does not read
                    // back at all is C16's business and is only counted here.)
                    let printed = acc.elab_real.to_string();
                    crate::bind::with_front(&printed, &[], 2, |f| match f {
                        crate::bind::Front::TypeErr { term, .. } | crate::bind::Front::Ok { term, .. } => {
                            let back = crate::model::mterm::mirror(term);
                            match sem::skeleton_mismatch_with(&acc.source, &back, true) {
                                None => count!("printed_elaboration_reads_back"),
                                Some(d) => violation(
                                    "printed-elaboration-is-another-program",
                                    text,
                                    &format!("the printed elaborated term reads back as the source with holes filled in: {}", acc.source.show()),
                                    &format!("{d}; printed: {printed}; read back: {}", back.show()),
                                ),
                            }
                        }
                        _ => count!("printed_elaboration_unreadable"),
                    });
                }
                Some(d) => violation("elaboration-rewrites-program", text, &format!("the source with holes filled in: {}", acc.source.show()), &format!("{d}; elaborated: {}", acc.elab.show())),
            }
        }
    });
}

fn typed_sweep(tier: Tier) -> Sweep {
    let progs = sem::typed_programs(sem::typed_size(tier));
    let p2 = progs.clone();
    let p3 = progs.clone();
    Sweep::new(
        "type-directed programs (fully annotated, well typed by construction)",
        progs.len() as u64,
        move |idx| {
            let (goal, s) = &progs[idx as usize];
            let text = surface::print(s);
            count!("evaluations");
            let want = sem::ty_to_m(goal);
            // the generator is cross-examined by the reference checker on every program
            let m = match surface::resolve(s, &[]) {
                Ok(m) => m,
                Err(e) => {
                    crate::infra::machinery(&format!("generated program does not resolve: {text} {e:?}"));
                    return;
                }
            };
            match sem::reference_check(&m, Some(&want)) {
                RefVerdict::WellTyped => {}
                RefVerdict::Unknown => {
                    count!("skipped_fuel");
                    return;
                }
                other => {
                    count!("generator_rejected_by_reference");
                    if idx % 1 == 0 {
                        crate::infra::sample("generator-rejected", || json!({"program": text, "goal": goal.show(), "reference": match other { RefVerdict::IllTyped(e) | RefVerdict::WrongType(e) => e, _ => String::new() }}));
                    }
                    return;
                }
            }
            count!("reference_accepts");
            check_annotated(&text, Some(&want), &format!("generated at type {}", goal.show()));
            if idx % 5000 == 17 {
                crate::infra::sample("typed-program", || json!({"program": text, "type": goal.show()}));
            }
        },
        move |idx| surface::print(&p2[idx as usize].1),
    )
    .with_post_abort(move |idx, kind| {
        let (goal, s) = &p3[idx as usize];
        let text = surface::print(s);
        AbortVerdict::Violation {
            sub: "abnormal-ending-on-well-typed-program".to_owned(),
            input: text,
            expected: format!("accepted at type {} (the reference checker derives it within fuel)", goal.show()),
            actual: kind.to_owned(),
        }
    })
}

fn alias_sweep(max_k: usize) -> Sweep {
    let fam = Rc::new(sem::alias_family(max_k));
    let f2 = fam.clone();
    let f3 = fam.clone();
    Sweep::new(
        "alias family: groups of type aliases in every order",
        fam.len() as u64,
        move |idx| {
            let (ty, text, annotated) = &fam[idx as usize];
            if !annotated {
                return; // the unannotated variants belong to C01/C03
            }
            count!("evaluations");
            count!("reference_accepts");
            count!("alias_groups");
            check_annotated(text, Some(&sem::ty_to_m(ty)), "alias family");
        },
        move |idx| f2[idx as usize].1.clone(),
    )
    .with_post_abort(move |idx, kind| AbortVerdict::Violation {
        sub: "abnormal-ending-on-well-typed-program".to_owned(),
        input: f3[idx as usize].1.clone(),
        expected: format!("accepted at type {}", f3[idx as usize].0.show()),
        actual: kind.to_owned(),
    })
}

fn nested_sweep() -> Sweep {
    let g = crate::model::grammar::Grammar::load();
    let fam = Rc::new(sem::nested_family());
    let f2 = fam.clone();
    let f3 = fam.clone();
    Sweep::new(
        "nested-group family (fully annotated)",
        fam.len() as u64,
        move |idx| {
            let text = &fam[idx as usize];
            count!("evaluations");
            // cross-examine the family with the reference checker, on the program as read by the grammar
            // model and the scope model (not by gram's parser)
            let ok = surface::parse_text(&g, text)
                .and_then(|s| surface::resolve(&s, &[]).ok())
                .is_some_and(|m| matches!(sem::reference_check(&m, Some(&M::Int)), RefVerdict::WellTyped));
            if !ok {
                count!("generator_rejected_by_reference");
                return;
            }
            count!("reference_accepts");
            check_annotated(text, Some(&M::Int), "nested-group family");
        },
        move |idx| f2[idx as usize].clone(),
    )
    .with_post_abort(move |idx, kind| AbortVerdict::Violation {
        sub: "abnormal-ending-on-well-typed-program".to_owned(),
        input: f3[idx as usize].clone(),
        expected: "accepted at type int".to_owned(),
        actual: kind.to_owned(),
    })
}

fn type_pair_sweep(tier: Tier) -> Sweep {
    let g = crate::model::grammar::Grammar::load();
    let fam = Rc::new(sem::type_pair_family(tier.pick(60, 140), tier));
    let f2 = fam.clone();
    let f3 = fam.clone();
    Sweep::new(
        "type-pair family: the members the reference checker accepts",
        fam.len() as u64,
        move |idx| {
            let text = &fam[idx as usize];
            count!("evaluations");
            let verdict = surface::parse_text(&g, text).and_then(|s| surface::resolve(&s, &[]).ok()).map(|m| sem::reference_check(&m, None));
            match verdict {
                Some(RefVerdict::WellTyped) => {
                    count!("reference_accepts");
                    count!("type_pairs_convertible");
                    check_annotated(text, None, "type-pair family");
                }
                Some(RefVerdict::Unknown) => count!("skipped_fuel"),
                None => crate::infra::machinery(&format!("type-pair program is not read by the grammar / scope model: {text}")),
                _ => count!("reference_rejects"),
            }
        },
        move |idx| f2[idx as usize].clone(),
    )
    .with_post_abort(move |idx, kind| AbortVerdict::Violation {
        sub: "abnormal-ending-on-well-typed-program".to_owned(),
        input: f3[idx as usize].clone(),
        expected: "a verdict".to_owned(),
        actual: kind.to_owned(),
    })
}

fn small_sweep(max_nodes: usize) -> Sweep {
    let space = Rc::new(RefCell::new(sem::small_term_space()));
    let total = space.borrow_mut().total_upto(max_nodes);
    let s2 = space.clone();
    let s3 = space.clone();
    let text_of = |m: &M| surface::print(&sem::m_to_s(m, &mut vec![]));
    Sweep::new(
        "all closed fully annotated terms over a small alphabet",
        total,
        move |idx| {
            let m = space.borrow_mut().unrank_global(max_nodes, idx);
            if !sem::is_closed(&m) {
                return;
            }
            count!("evaluations");
            match sem::reference_check(&m, None) {
                RefVerdict::WellTyped => {
                    count!("reference_accepts");
                    let text = text_of(&m);
                    check_annotated(&text, None, "closed annotated term");
                }
                RefVerdict::Unknown => count!("skipped_fuel"),
                _ => count!("reference_rejects"),
            }
        },
        move |idx| text_of(&s2.borrow_mut().unrank_global(max_nodes, idx)),
    )
    .with_post_abort(move |idx, kind| {
        let m = s3.borrow_mut().unrank_global(max_nodes, idx);
        AbortVerdict::Violation {
            sub: "abnormal-ending-on-well-typed-program".to_owned(),
            input: surface::print(&sem::m_to_s(&m, &mut vec![])),
            expected: "accepted (the reference checker derives a type within fuel)".to_owned(),
            actual: kind.to_owned(),
        }
    })
}

impl Prop for C05 {
    fn id(&self) -> &'static str {
        "C05"
    }
    fn sweeps(&self, tier: Tier) -> Vec<Sweep> {
        vec![typed_sweep(tier), alias_sweep(tier.pick(2, 3)), nested_sweep(), small_sweep(tier.pick(6, 7)), type_pair_sweep(tier)]
    }
    fn evidence(&self, tier: Tier) -> EvidenceSpec {
        EvidenceSpec {
            level: "exploration",
            rule: "every program produced by type-directed enumeration up to the size bound (goal types int, bool, type, int -> int, bool -> int, (int -> int) -> int, bool -> type, (a : type) -> a -> a; variables, literals, arithmetic, comparison, conditional, lambda, application incl. beta-redexes and higher-order arguments, groups of one and two definitions with recursion, mutual recursion and forward type aliases, computed annotations, polymorphic identity) and every closed fully annotated term up to the node bound over a 9-atom / 8-former alphabet that the reference checker accepts; each must be accepted by the real front end with a type convertible to the expected one, and the elaborated term must be the source term with holes filled (lock-step skeleton comparison). Also every member the reference accepts of the type-pair family: ordered pairs of the smallest generated types and of all definition groups denoting types (1-2 / 1-3 members, aliases in both directions) meeting at an argument, at the branches of a conditional and at an annotated definition; the same for open types under two type parameters with a type-level function whose body is a group; and pairs of terms of five kinds (incl. the implicit polymorphic identity) under an opaque type constructor after instantiating a dependent codomain. A rejection by the definition-order check alone is a violation unless the reference model of the rule (sem::order_rule_violated) finds a computed definition that needs a later computed definition. non-trivial = accepted programs whose skeleton was compared For every accepted program the text that `gram check` prints for the elaborated term is read back (tokenize, parse) and must again be the source program with holes filled in (names of unused function-type parameters aside); text that does not read back at all is counted and left to C16.".to_owned(),
            assumptions: vec![
                "typing rules of DESIGN.md 5.6 (engine/src/model/typing.rs): type : type, `_` has type type, implicit functions cannot be applied, conversion ignores lambda annotations, no eta".to_owned(),
                "programs on which the reference runs out of fuel are skipped (counted)".to_owned(),
            ],
            evaluations: "evaluations",
            nontrivial: "nontrivial",
            states: None,
            transitions: None,
            traces: None,
            exhaustive: true,
            bounds: json!({"typed_program_nodes": sem::typed_size(tier), "small_term_nodes": tier.pick(6, 7)}),
            minimums: vec![("reference_accepts", 10_000), ("skeleton_preserved", 10_000)],
        }
    }
}
