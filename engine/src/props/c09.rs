// C09 — tokens partition the source text exactly.
use crate::{
    bind::guard,
    enumerate::Seqs,
    findings,
    infra::{EvidenceSpec, Prop, Sweep, Tier, violation},
    model::{
        lexer::{self, LTok, Lexed},
        tok::{K, kind_of},
    },
};
use serde_json::json;
use std::rc::Rc;
use unicode_segmentation::UnicodeSegmentation;

pub struct C09;

pub fn sigma_lex() -> Vec<&'static str> {
    vec![
        // the 14 symbol characters
        "*", ":", "{", "(", "+", "}", ")", "/", ";", "-", "<", "=", ">", "#",
        // line / space: 1-, 2- and 3-byte whitespace
        "\n", " ", "\t", "\r", "\u{a0}", "\u{2028}", "\u{85}",
        // letters
        "x", "é", "𝑥", "_",
        // keywords, and the letters keyword prefixes / extensions are made of
        "if", "int", "bool", "else", "then", "true", "false", "type", "i", "f", "t", "e",
        // digits: ASCII, and one that is alphanumeric but neither ASCII digit nor alphabetic
        "0", "7", "١",
        // illegal characters
        "$", "\u{301}", "👍", "\0",
    ]
}

// Characters whose grapheme cluster depends on what precedes them (regional-indicator pairs, zero
// width joiner sequences, emoji modifiers and variation selectors, a virama between consonants, Hangul
// jamo, CR LF), next to ordinary text: the boundary of an unexpected symbol has to be found with the
// text before it in view.
pub fn sigma_cluster() -> Vec<&'static str> {
    vec![
        "\u{1f1fa}", "\u{1f1f8}", "\u{200d}", "\u{1f468}", "\u{1f469}", "\u{fe0f}", "\u{1f3fd}", "\u{915}", "\u{94d}", "\u{937}", "\u{1100}", "\u{1161}", "\u{11a8}", "\u{301}",
        "$", "x", " ", "\r", "\n", "7",
    ]
}

pub fn sigma_lex_core() -> Vec<&'static str> {
    vec![
        "#", "\n", " ", "x", "é", "_", "if", "i", "f", "0", ";", "=", ">", "-", "(", ")", "+", "$", "\u{301}", "𝑥",
        "\r", "then", "<", "١",
    ]
}

pub fn concat(alpha: &[&str], idxs: &[usize]) -> String {
    let mut s = String::new();
    for i in idxs {
        s.push_str(alpha[*i]);
    }
    s
}

// The expected "grapheme remainder" starting at byte offset `i`.
fn grapheme_remainder(text: &str, i: usize) -> &str {
    for (start, g) in text.grapheme_indices(true) {
        if start <= i && i < start + g.len() {
            return &text[i..start + g.len()];
        }
    }
    &text[i..]
}

fn is_ws_or_comments(gap: &str) -> bool {
    let mut rest = gap;
    while let Some(c) = rest.chars().next() {
        if c == '#' {
            match rest.find('\n') {
                Some(j) => rest = &rest[j..],
                None => return true,
            }
        } else if c.is_whitespace() {
            rest = &rest[c.len_utf8()..];
        } else {
            return false;
        }
    }
    true
}

#[derive(PartialEq, Eq, Clone, Copy)]
#[repr(u8)]
pub enum Outcome {
    Tokens,
    Illegal,
    Known,
    Violation,
}

// The complete C09 oracle on one text. Returns the outcome and whether the case is non-trivial.
pub fn check_text(text: &str, prop: &str) -> Outcome {
    let real = guard(|| crate::tokenizer::tokenize(None, text));
    let real = match real {
        Err(msg) => {
            violation("tokenize-panic", text, "Ok(tokens) or Err(errors)", &format!("panic: {msg}"));
            return Outcome::Violation;
        }
        Ok(r) => r,
    };
    let reference = lexer::lex(text);
    let describe = |toks: &[crate::token::Token]| -> String {
        toks.iter().map(|t| format!("{:?}@{}..{}", kind_of(&t.variant), t.source_range.start, t.source_range.end)).collect::<Vec<_>>().join(" ")
    };
    let describe_ref = |toks: &[LTok]| -> String {
        toks.iter().map(|t| format!("{:?}@{}..{}", t.k, t.start, t.end)).collect::<Vec<_>>().join(" ")
    };
    match (&real, &reference) {
        (Err(errors), Lexed::Illegal(positions)) => {
            if errors.len() != positions.len() {
                if classify_comment_defect(text, &real) {
                    return Outcome::Known;
                }
                violation(
                    "error-count",
                    text,
                    &format!("{} diagnostics, one per illegal character at {:?}", positions.len(), positions),
                    &format!("{} diagnostics", errors.len()),
                );
                return Outcome::Violation;
            }
            for (e, p) in errors.iter().zip(positions) {
                let g = grapheme_remainder(text, *p);
                let want = format!("[Error] Unexpected symbol `{g}`.");
                if !e.message.starts_with(&want) {
                    violation("error-symbol", text, &want, &e.message);
                    return Outcome::Violation;
                }
            }
            Outcome::Illegal
        }
        (Ok(toks), Lexed::Tokens(want)) => {
            // (1) structural invariants, judged on the real output alone
            let mut prev_end = 0;
            let mut bad: Option<String> = None;
            for t in toks {
                let (s, e) = (t.source_range.start, t.source_range.end);
                if s < prev_end || e <= s || e > text.len() || !text.is_char_boundary(s) || !text.is_char_boundary(e) {
                    bad = Some(format!("range {s}..{e} is not ascending/disjoint/on char boundaries/in bounds"));
                    break;
                }
                let slice = &text[s..e];
                let k = kind_of(&t.variant);
                let ok = match &t.variant {
                    crate::token::Variant::Identifier(name) => *name == slice,
                    crate::token::Variant::IntegerLiteral(v) => {
                        slice.bytes().all(|b| b.is_ascii_digit()) && *v == lexer::literal_value(slice)
                    }
                    crate::token::Variant::Terminator(crate::token::TerminatorType::LineBreak) => slice == "\n",
                    other => other.to_string() == slice,
                };
                if !ok {
                    bad = Some(format!("token {k:?} at {s}..{e} does not contain its own text (slice {slice:?})"));
                    break;
                }
                if !is_ws_or_comments(&text[prev_end..s]) {
                    bad = Some(format!("gap {:?} before {s} is not whitespace/comments", &text[prev_end..s]));
                    break;
                }
                prev_end = e;
            }
            if bad.is_none() && !is_ws_or_comments(&text[prev_end..]) {
                bad = Some(format!("trailing gap {:?} is not whitespace/comments", &text[prev_end..]));
            }
            // (2) exact agreement with the reference lexer
            let same = toks.len() == want.len()
                && toks.iter().zip(want).all(|(t, w)| {
                    kind_of(&t.variant) == w.k && t.source_range.start == w.start && t.source_range.end == w.end
                });
            if same && bad.is_none() {
                return Outcome::Tokens;
            }
            if classify_comment_defect(text, &real) {
                return Outcome::Known;
            }
            if let Some(b) = bad {
                violation("partition-invariant", text, "tokens partition the text", &b);
            } else {
                violation("token-stream", text, &describe_ref(want), &describe(toks));
            }
            Outcome::Violation
        }
        (Ok(toks), Lexed::Illegal(p)) => {
            if classify_comment_defect(text, &real) {
                return Outcome::Known;
            }
            violation("missed-illegal", text, &format!("diagnostics for illegal characters at {p:?}"), &describe(toks));
            Outcome::Violation
        }
        (Err(errors), Lexed::Tokens(want)) => {
            if classify_comment_defect(text, &real) {
                return Outcome::Known;
            }
            violation("spurious-error", text, &describe_ref(want), &crate::bind::messages(errors).join(" | "));
            Outcome::Violation
        }
    }
}

// Finding F-COMMENT: the real output equals the reference lexer *with exactly that defect injected*.
fn classify_comment_defect(
    text: &str,
    real: &Result<Vec<crate::token::Token>, Vec<crate::error::Error>>,
) -> bool {
    if !findings::is_known("F-COMMENT") || !text.contains('#') {
        return false;
    }
    let defect = lexer::lex_with(text, true);
    let matches = match (real, &defect) {
        (Ok(toks), Lexed::Tokens(want)) => {
            toks.len() == want.len()
                && toks.iter().zip(want).all(|(t, w)| {
                    kind_of(&t.variant) == w.k && t.source_range.start == w.start && t.source_range.end == w.end
                })
        }
        (Err(errors), Lexed::Illegal(p)) => errors.len() == p.len(),
        _ => false,
    };
    if matches {
        crate::infra::known("F-COMMENT", || format!("{text:?}"));
    }
    matches
}

// A text containing every triple of fragments exactly once (order-3 de Bruijn sequence).
pub fn de_bruijn_text(alpha: &[&str], order: usize) -> String {
    let k = alpha.len();
    let mut a = vec![0usize; k * order];
    let mut seq: Vec<usize> = vec![];
    fn db(t: usize, p: usize, n: usize, k: usize, a: &mut Vec<usize>, seq: &mut Vec<usize>) {
        if t > n {
            if n % p == 0 {
                seq.extend_from_slice(&a[1..=p]);
            }
        } else {
            a[t] = a[t - p];
            db(t + 1, p, n, k, a, seq);
            for j in a[t - p] + 1..k {
                a[t] = j;
                db(t + 1, t, n, k, a, seq);
            }
        }
    }
    db(1, 1, order, k, &mut a, &mut seq);
    let mut wrapped = seq.clone();
    wrapped.extend_from_slice(&seq[..order - 1]);
    concat(alpha, &wrapped)
}

pub fn string_sweep(name: &str, alpha: Vec<&'static str>, min: usize, max: usize, prop: &'static str) -> Sweep {
    let seqs = Seqs::with_min(alpha.len(), min, max);
    let alpha = Rc::new(alpha);
    let (a1, a2) = (alpha.clone(), alpha.clone());
    let (s1, s2) = (seqs.clone(), seqs.clone());
    let mut buf = vec![];
    Sweep::new(
        name,
        seqs.count(),
        move |idx| {
            s1.unrank(idx, &mut buf);
            let text = concat(&a1, &buf);
            count!("evaluations");
            let o = check_text(&text, prop);
            crate::infra::digest(0, crate::infra::fnv(text.as_bytes()), o as u64);
            match o {
                Outcome::Tokens => {
                    count!("ok_tokens");
                    // non-trivial: at least two tokens, or a token next to a comment / multi-byte gap
                    if buf.len() >= 2 {
                        count!("nontrivial");
                    }
                    if idx % 50_000 == 777 {
                        crate::infra::sample("string", || json!(text));
                    }
                }
                Outcome::Illegal => {
                    count!("ok_illegal");
                    count!("nontrivial");
                }
                Outcome::Known => {
                    count!("known_instances");
                }
                Outcome::Violation => {}
            }
        },
        move |idx| {
            let mut b = vec![];
            s2.unrank(idx, &mut b);
            format!("{:?}", concat(&a2, &b))
        },
    )
}

// Integer literals of every length up to 64 digits and of 100, 1000 and 5000 digits, in five digit
// patterns (all nines, a one followed by zeros, leading zeros, ascending digits, a power of two's
// neighbourhood), alone and between identifiers: the token must carry exactly the decimal value of its
// text (computed digit by digit in the reference) and be matched maximally.
pub fn long_literal_sweep(prop: &'static str) -> Sweep {
    let mut lengths: Vec<usize> = (1..=64).collect();
    lengths.extend([100, 1000, 5000]);
    let lengths = Rc::new(lengths);
    let l2 = lengths.clone();
    let digits = |len: usize, pattern: usize| -> String {
        match pattern {
            0 => "9".repeat(len),
            1 => format!("1{}", "0".repeat(len - 1)),
            2 => format!("{}7", "0".repeat(len - 1)),
            3 => (0..len).map(|i| char::from(b'0' + ((i + 1) % 10) as u8)).collect(),
            _ => {
                // 2^64 - 1, 2^64, 2^64 + 1 ... padded / cut to the length
                let base = "18446744073709551616";
                (0..len).map(|i| base.as_bytes()[i % base.len()] as char).collect()
            }
        }
    };
    Sweep::new(
        "integer literals of every length (five digit patterns, alone and between identifiers)",
        (lengths.len() * 5 * 3) as u64,
        move |idx| {
            let i = idx as usize;
            let d = digits(lengths[i / 15], (i / 3) % 5);
            let text = match i % 3 {
                0 => d.clone(),
                1 => format!("x {d} y"),
                _ => format!("f({d})+{d}#{d}\n{d}"),
            };
            count!("evaluations");
            count!("long_literals");
            match check_text(&text, prop) {
                Outcome::Tokens | Outcome::Illegal => count!("nontrivial"),
                Outcome::Known => count!("known_instances"),
                Outcome::Violation => {}
            }
        },
        move |idx| format!("literal of {} digits, pattern {}, embedding {}", l2[idx as usize / 15], (idx / 3) % 5, idx % 3),
    )
}

pub fn de_bruijn_sweep(prop: &'static str) -> Sweep {
    let legal: Vec<&'static str> = sigma_lex().into_iter().filter(|f| !["$", "\u{301}", "👍", "\0"].contains(f)).collect();
    let texts: Rc<Vec<String>> = Rc::new(vec![de_bruijn_text(&legal, 3), de_bruijn_text(&sigma_lex(), 2), de_bruijn_text(&sigma_lex_core(), 3)]);
    let t2 = texts.clone();
    Sweep::new(
        "de-bruijn-texts",
        texts.len() as u64,
        move |idx| {
            let text = &texts[idx as usize];
            count!("evaluations");
            count!("long_texts");
            match check_text(text, prop) {
                Outcome::Tokens | Outcome::Illegal => {
                    count!("nontrivial");
                    crate::infra::bump_named("max.long_text_bytes", 0);
                    crate::infra::max_named("max.long_text_bytes", text.len() as u64);
                }
                Outcome::Known => count!("known_instances"),
                Outcome::Violation => {}
            }
        },
        move |idx| format!("de Bruijn text #{idx} ({} bytes)", t2[idx as usize].len()),
    )
    .with_timeout(300)
}

impl Prop for C09 {
    fn id(&self) -> &'static str {
        "C09"
    }
    fn sweeps(&self, tier: Tier) -> Vec<Sweep> {
        vec![
            string_sweep("strings over Σlex", sigma_lex(), 0, tier.pick(3, 4), "C09"),
            string_sweep("strings over Σlex-core", sigma_lex_core(), 4, tier.pick(4, 5), "C09"),
            string_sweep("strings over Σcluster", sigma_cluster(), 1, tier.pick(4, 5), "C09"),
            de_bruijn_sweep("C09"),
            long_literal_sweep("C09"),
        ]
    }
    fn evidence(&self, tier: Tier) -> EvidenceSpec {
        EvidenceSpec {
            level: "exploration",
            rule: "every concatenation of at most k fragments over the alphabets Σlex (44 fragments: every symbol, 1/2/3-byte whitespace, 1/2/4-byte letters, keywords and their prefix letters, ASCII and non-ASCII digits, illegal characters, a combining mark, NUL) Σlex-core (24) and Σcluster (20: regional indicators, zero width joiner, emoji with modifiers and variation selectors, consonant-virama-consonant, Hangul jamo, a combining mark, CR and LF next to ordinary text — characters whose grapheme cluster depends on the text before them), plus de Bruijn texts containing every fragment triple, plus integer literals of every length 1..64 and of 100, 1000 and 5000 digits in five digit patterns (alone, between identifiers, next to symbols and comments); each is tokenized by the real `tokenize` and compared with the declarative reference lexer and the partition invariants. Distinct by construction (one case per fragment sequence); non-trivial = at least two fragments yielding a token stream, or at least one illegal character".to_owned(),
            assumptions: vec![
                "reference lexer (engine/src/model/lexer.rs) states the token shapes of C09 and the line-break rule of C10".to_owned(),
                "grapheme boundaries are computed with the unicode-segmentation crate (same crate as gram)".to_owned(),
                "characters outside the fragment alphabet are not exercised".to_owned(),
            ],
            evaluations: "evaluations",
            nontrivial: "nontrivial",
            states: None,
            transitions: None,
            traces: None,
            exhaustive: true,
            bounds: json!({"sigma_lex_max_fragments": tier.pick(3, 4), "sigma_lex_core_max_fragments": tier.pick(4, 5), "de_bruijn_texts": 3}),
            minimums: vec![("ok_tokens", 10_000), ("ok_illegal", 1_000), ("long_texts", 3)],
        }
    }
}
