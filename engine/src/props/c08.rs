// C08 — every variable occurrence is bound to the right binder.
use crate::{
    bind::{self, Front},
    enumerate::Sentences,
    infra::{EvidenceSpec, Prop, Sweep, Tier, violation},
    model::{
        grammar::{Grammar, Tree},
        mterm::mirror,
        surface::{self, Fault, FromTree},
        tok::{self, K, Tok},
    },
    props::c07,
};
use serde_json::json;
use std::{cell::RefCell, collections::BTreeSet, rc::Rc};

pub struct C08;

fn leaf_tokens(t: &Tree) -> Vec<Tok> {
    t.tokens().into_iter().map(Tok::new).collect()
}

fn parse_faults(msgs: &[String]) -> (BTreeSet<Fault>, usize, usize) {
    // (scope faults, definition-order diagnostics, other diagnostics)
    let mut set = BTreeSet::new();
    let (mut order, mut other) = (0, 0);
    for m in msgs {
        let name = m.split('`').nth(1).unwrap_or("").to_owned();
        if m.contains("not in scope") {
            set.insert(Fault::NotInScope(name));
        } else if m.contains("already exists") {
            set.insert(Fault::AlreadyExists(name));
        } else if m.contains("will not be available in time") {
            order += 1;
        } else {
            other += 1;
        }
    }
    (set, order, other)
}

// Check one named program (token list) against the scope model.
pub fn check_program(g: &Grammar, tree: &Tree, toks: &[Tok]) {
    count!("evaluations");
    let raw = FromTree::new(g, toks).convert(tree);
    let s = surface::reassoc(&raw);
    let model = surface::resolve(&s, &[]);
    let (src, ranges) = tok::layout(toks);
    let real = tok::real_tokens(&src, toks, &ranges);
    // A name is the whole text of its identifier: the real tokenizer, run on the program text, yields
    // exactly the tokens the naming was written with (so what is resolved below is what a file holds).
    match bind::guard(|| crate::tokenizer::tokenize(None, &src)) {
        Err(m) => {
            violation("tokenize-panic", &src, "tokens", &m);
            return;
        }
        Ok(Err(e)) => {
            violation("name-is-not-its-text", &src, "the tokens the program was written with", &bind::messages(&e).join(" | "));
            return;
        }
        Ok(Ok(ts)) => {
            let shown = |v: &[crate::token::Token]| v.iter().map(|t| format!("{:?}", t.variant)).collect::<Vec<_>>();
            let (got, want) = (shown(&ts), shown(&real));
            if got != want {
                violation("name-is-not-its-text", &src, &format!("{want:?}"), &format!("{got:?}"));
                return;
            }
        }
    }
    bind::with_tokens(&src, &real, &[], 2, |f| match f {
        Front::Panic { message, .. } => violation("parse-panic", &src, "no panic", &message),
        Front::ParseErr { errors, .. } => {
            let msgs = bind::messages(&errors);
            let (set, order, other) = parse_faults(&msgs);
            if other > 0 {
                violation("syntax-error-on-sentence", &src, "no syntax error", &msgs.join(" | "));
                return;
            }
            match &model {
                Err(faults) => {
                    let want: BTreeSet<Fault> = faults.iter().cloned().collect();
                    if want.is_subset(&set) {
                        count!("rejected_as_predicted");
                        count!("nontrivial");
                        if set.len() > want.len() {
                            count!("follow_up_diagnostics");
                        }
                    } else {
                        violation("wrong-scope-diagnostics", &src, &format!("{want:?}"), &format!("{set:?}"));
                    }
                }
                Ok(_) => {
                    if set.is_empty() && order > 0 {
                        count!("rejected_for_definition_order_only");
                    } else {
                        violation("well-scoped-program-rejected", &src, "accepted (every name is bound by the scope rules)", &msgs.join(" | "));
                    }
                }
            }
        }
        Front::TypeErr { term, .. } | Front::Ok { term, .. } => match &model {
            Err(faults) => violation("ill-scoped-program-accepted", &src, &format!("rejected: {faults:?}"), &mirror(term).show()),
            Ok(want) => {
                let got = mirror(term);
                if got.same_tree(want) {
                    count!("accepted_with_predicted_indices");
                    count!("nontrivial");
                } else {
                    violation("wrong-binding", &src, &want.show(), &got.show());
                }
            }
        },
        Front::TokenizeErr(_) => unreachable!(),
    });
}

fn sweep(name: &str, g: Grammar, min_len: usize, max_len: usize, pool: [&'static str; 3]) -> Sweep {
    let sentences = Rc::new(RefCell::new(Sentences::new(g.clone(), min_len, max_len)));
    let total = sentences.borrow().total;
    let s2 = sentences.clone();
    Sweep::new(
        name,
        total,
        move |idx| {
            let tree = sentences.borrow_mut().tree(idx);
            let mut toks = leaf_tokens(&tree);
            let ids: Vec<usize> = toks.iter().enumerate().filter(|(_, t)| t.k == K::Identifier).map(|(i, _)| i).collect();
            let k = ids.len();
            if k > 9 {
                crate::infra::machinery("too many identifier leaves");
                return;
            }
            let n = 3usize.pow(k as u32);
            for a in 0..n {
                let mut x = a;
                for i in &ids {
                    toks[*i] = Tok::ident(pool[x % 3]);
                    x /= 3;
                }
                check_program(&g, &tree, &toks);
            }
            if idx % 20_000 == 7 {
                crate::infra::sample("program", || json!(tok::layout(&toks).0));
            }
        },
        move |idx| {
            let tree = s2.borrow_mut().tree(idx);
            format!("all namings of: {}", tok::layout(&leaf_tokens(&tree)).0)
        },
    )
}

impl Prop for C08 {
    fn id(&self) -> &'static str {
        "C08"
    }
    fn sweeps(&self, tier: Tier) -> Vec<Sweep> {
        let g = Grammar::load();
        let class = g.restrict(&c07::class_alphabet(), &[]);
        let lets = g.restrict(&[K::Identifier, K::IntegerLiteral, K::LeftParen, K::RightParen, K::Equals, K::Semicolon, K::Colon, K::ThickArrow], &["application", "annotated_lambda", "pi"]);
        let binders = g.restrict(&[K::Identifier, K::Type, K::LeftParen, K::RightParen, K::LeftCurly, K::RightCurly, K::Colon, K::ThickArrow, K::ThinArrow], &["let", "application"]);
        let mut v = vec![
            sweep("all namings over {a,b,_}, class alphabet", class.clone(), 1, tier.pick(7, 8), ["a", "b", "_"]),
            sweep("all namings over {a,b,_}, let slice", lets.clone(), 8, tier.pick(11, 13), ["a", "b", "_"]),
            sweep("all namings over {a,b,_}, binder slice", binders.clone(), 8, tier.pick(11, 13), ["a", "b", "_"]),
        ];
        v.push(sweep("all namings over {iff,é,_}, class alphabet", class.clone(), 1, tier.pick(5, 7), ["iff", "é", "_"]));
        // names that begin with the placeholder's character (`_a`, `__`) are ordinary names: they bind,
        // they can be unbound, only `_` itself is a hole
        v.push(sweep("all namings over {_a,__,_}, class alphabet", class, 1, tier.pick(5, 7), ["_a", "__", "_"]));
        v.push(sweep("all namings over {_a,a,_}, let slice", lets.clone(), 8, tier.pick(10, 12), ["_a", "a", "_"]));
        // names that differ only after a multi-byte character, with characters of different widths
        // (1 + 2 + 1 bytes; 2 + 1 bytes against 2 + 3 bytes): a name is its whole text
        v.push(sweep("all namings over {aé1,aé2,_}, class alphabet", g.restrict(&c07::class_alphabet(), &[]), 1, tier.pick(5, 7), ["aé1", "aé2", "_"]));
        v.push(sweep("all namings over {éa,é漢,_}, let slice", lets.clone(), 8, tier.pick(9, 11), ["éa", "é漢", "_"]));
        // groups nested in definitions and bodies, nothing but names: reaches two-member groups whose
        // first definition is itself a parenthesised group (15 tokens)
        let groups_only = g.restrict(&[K::Identifier, K::LeftParen, K::RightParen, K::Equals, K::Semicolon], &["application"]);
        v.push(sweep("all namings over {a,b,_}, groups-only slice", groups_only, 12, tier.pick(15, 17), ["a", "b", "_"]));
        v
    }
    fn evidence(&self, tier: Tier) -> EvidenceSpec {
        EvidenceSpec {
            level: "exploration",
            rule: "every derivation tree of grammar.y up to the bounds (class alphabet; let slice; binder slice; a slice of bare names, definitions and parentheses that reaches groups whose members are themselves parenthesised groups, 15/17 tokens) with every assignment of the names {a, b, _} (and {iff, é, _}: a keyword prefix and a non-ASCII letter; {_a, __, _} and {_a, a, _}: names that begin with the placeholder character; {aé1, aé2, _} and {éa, é漢, _}: names of mixed character widths that differ only in their last character) to every identifier leaf: all nestings of binders, sibling scopes re-using a name, groups nested in definitions / annotations / bodies, every way to leave a name unbound or to re-bind one. The real parse is compared with a named scope resolver: predicted faults (kind and identifier) must all be reported; fault-free programs must be accepted with exactly the predicted de Bruijn index at every occurrence and a fresh hole for every `_`, or be rejected by the definition-order check alone. non-trivial = programs accepted with the predicted indices + programs rejected with the predicted faults".to_owned(),
            assumptions: vec![
                "diagnostic *counts* after a first scoping error are not compared (follow-up diagnostics are allowed)".to_owned(),
                "the definition-order diagnostics form a class of their own; their adequacy is C01's question".to_owned(),
            ],
            evaluations: "evaluations",
            nontrivial: "nontrivial",
            states: None,
            transitions: None,
            traces: None,
            exhaustive: true,
            bounds: json!({"class_alphabet_max_tokens": tier.pick(7, 8), "slices_max_tokens": tier.pick(11, 13)}),
            minimums: vec![("accepted_with_predicted_indices", 10_000), ("rejected_as_predicted", 100_000)],
        }
    }
}
