// C11 — substitution and index shifting are capture-avoiding.
use crate::{
    bind::guard,
    enumerate::terms::{Former, TermSpace, all_atoms, all_formers},
    infra::{EvidenceSpec, Prop, Sweep, Tier, violation},
    model::{
        mterm::{M, Op, mirror, to_real},
        subst,
    },
};
use serde_json::json;
use std::{cell::RefCell, collections::HashSet, rc::Rc};

pub struct C11;

const WIDTH: usize = 16; // length of the reference context Γ (indices < 4, shifts <= 3, inserted terms lifted)

fn real(m: &M) -> crate::term::Term<'static> {
    to_real(m, &mut Default::default())
}

fn check_term(t: &M, inserts: &[M]) {
    let rt = real(t);
    count!("evaluations");
    count!("terms");
    // free variables
    for cutoff in 0..3 {
        let mut hs = HashSet::new();
        match guard(|| crate::term::free_variables(&rt, cutoff, &mut hs)) {
            Err(m) => violation("free-variables-panic", &t.show(), "a set", &m),
            Ok(()) => {
                let got: std::collections::BTreeSet<usize> = hs.into_iter().collect();
                let want = subst::expected_free(t, cutoff, WIDTH);
                count!("calls");
                if got != want {
                    violation("free-variables", &format!("free_variables({}, cutoff {cutoff})", t.show()), &format!("{want:?}"), &format!("{got:?}"));
                }
            }
        }
    }
    // shifting
    for cutoff in 0..4usize {
        for amount in -3..=3isize {
            count!("calls");
            let want = subst::expected_shift(t, cutoff, amount, WIDTH);
            let got = guard(|| crate::de_bruijn::signed_shift(&rt, cutoff, amount));
            let input = || format!("signed_shift({}, cutoff {cutoff}, amount {amount})", t.show());
            match got {
                Err(m) => violation("shift-panic", &input(), "Some/None", &m),
                Ok(got) => {
                    let got = got.map(|g| mirror(&g));
                    match (&want, &got) {
                        (Some(w), Some(g)) if w.alpha_eq(g) => {
                            count!("shift_ok");
                            if amount == 0 && !g.alpha_eq(t) {
                                violation("shift-zero-not-identity", &input(), &t.show(), &g.show());
                            }
                        }
                        (None, None) => count!("shift_fails_as_predicted"),
                        _ => violation(
                            "shift",
                            &input(),
                            &want.as_ref().map_or("None (a variable would become unbound)".to_owned(), M::show),
                            &got.as_ref().map_or("None".to_owned(), M::show),
                        ),
                    }
                    // the unsigned entry point (used by `open` and by every context lookup) agrees
                    if amount >= 0 {
                        count!("calls");
                        match guard(|| crate::de_bruijn::unsigned_shift(&rt, cutoff, amount as usize)) {
                            Err(m) => violation("shift-panic", &format!("unsigned_shift({}, cutoff {cutoff}, amount {amount})", t.show()), "a term", &m),
                            Ok(u) => {
                                if want.as_ref().is_some_and(|w| w.alpha_eq(&mirror(&u))) {
                                    count!("unsigned_shift_ok");
                                } else {
                                    violation("shift", &format!("unsigned_shift({}, cutoff {cutoff}, amount {amount})", t.show()), &want.as_ref().map_or("-".to_owned(), M::show), &mirror(&u).show());
                                }
                            }
                        }
                    }
                    // a downward shift undoes an upward one; shifts compose additively
                    if amount > 0
                        && let Some(g) = &got
                    {
                        let rg = real(g);
                        match guard(|| crate::de_bruijn::signed_shift(&rg, cutoff, -amount)) {
                            Ok(Some(back)) if mirror(&back).alpha_eq(t) => count!("shift_roundtrips"),
                            other => violation("shift-not-undone", &input(), &t.show(), &format!("{:?}", other.map(|o| o.map(|x| mirror(&x).show())))),
                        }
                        for b in 1..=2isize {
                            let two = guard(|| crate::de_bruijn::signed_shift(&rg, cutoff, b));
                            let one = guard(|| crate::de_bruijn::signed_shift(&rt, cutoff, amount + b));
                            match (two, one) {
                                (Ok(Some(x)), Ok(Some(y))) if mirror(&x).alpha_eq(&mirror(&y)) => count!("shift_compositions"),
                                _ => violation("shift-not-additive", &format!("{} then +{b}", input()), "shift(shift(t,c,a),c,b) = shift(t,c,a+b)", "differs"),
                            }
                        }
                    }
                }
            }
        }
    }
    // opening
    for index in 0..4usize {
        for u in inserts {
            let ru = real(u);
            for s in 0..=index {
                count!("calls");
                let want = subst::expected_open(t, index, u, s, WIDTH);
                let got = guard(|| crate::de_bruijn::open(&rt, index, &ru, s));
                let input = || format!("open({}, index {index}, insert {}, shift {s})", t.show(), u.show());
                match (want, got) {
                    (_, Err(m)) => violation("open-panic", &input(), "a term", &m),
                    (None, _) => crate::infra::machinery(&format!("reference substitution undefined for {}", input())),
                    (Some(w), Ok(g)) => {
                        let g = mirror(&g);
                        if w.alpha_eq(&g) {
                            count!("open_ok");
                        } else {
                            violation("open", &input(), &w.show(), &g.show());
                        }
                    }
                }
            }
        }
        // opening a term in which the variable does not occur merely lowers the indices above it
        let mut fv = std::collections::BTreeSet::new();
        crate::model::mterm::free_vars(t, 0, &mut fv);
        if !fv.contains(&index) {
            let dummy = real(&M::Type);
            let opened = guard(|| crate::de_bruijn::open(&rt, index, &dummy, 0));
            let lowered = guard(|| crate::de_bruijn::signed_shift(&rt, index + 1, -1));
            // lowering at cutoff index+1 removes the name at position index+1... the variable at `index`
            // itself does not occur, so shifting down by one at cutoff `index` is defined
            let lowered2 = guard(|| crate::de_bruijn::signed_shift(&rt, index, -1));
            match (opened, lowered2) {
                (Ok(o), Ok(Some(l))) if mirror(&o).alpha_eq(&mirror(&l)) => count!("open_nonoccurring_ok"),
                (o, l) => violation(
                    "open-nonoccurring",
                    &format!("open({}, {index}, type, 0)", t.show()),
                    "equals signed_shift(t, index, -1)",
                    &format!("{:?} vs {:?}", o.map(|x| mirror(&x).show()), l.map(|x| x.map(|y| mirror(&y).show()))),
                ),
            }
            let _ = lowered;
        }
    }
    count!("nontrivial");
}

fn sweep(name: &str, atoms: Vec<M>, formers: Vec<Former>, max_size: usize, insert_size: usize) -> Sweep {
    let space = Rc::new(RefCell::new(TermSpace::new(atoms.clone(), formers.clone())));
    let total = space.borrow_mut().total_upto(max_size);
    let s2 = space.clone();
    let mut ins_space = TermSpace::new(atoms, formers);
    let n_ins = ins_space.total_upto(insert_size);
    // inserted terms: all atoms and a selection of 2- and 3-node terms with free variables
    let mut inserts: Vec<M> = vec![];
    for i in 0..n_ins {
        let u = ins_space.unrank_global(insert_size, i);
        let mut fv = std::collections::BTreeSet::new();
        crate::model::mterm::free_vars(&u, 0, &mut fv);
        if u.size() == 1 || (!fv.is_empty() && i % 7 == 0) {
            inserts.push(u);
        }
    }
    inserts.truncate(40);
    Sweep::new(
        name,
        total,
        move |idx| {
            let t = space.borrow_mut().unrank_global(max_size, idx);
            check_term(&t, &inserts);
            if idx % 50_000 == 11 {
                crate::infra::sample("term", || json!(t.show()));
            }
        },
        move |idx| s2.borrow_mut().unrank_global(max_size, idx).show(),
    )
}

// Opening with every inserted term: the main sweep pairs every host term with a selection of at most 40
// inserted terms; here every term of at most `insert_size` nodes that has a free variable is inserted
// into every host term of at most `host_size` nodes (every index, every insertion shift), so that no
// shape of inserted term (a binder whose annotation mentions a free variable, a group, ...) is left out.
fn insert_sweep(atoms: Vec<M>, formers: Vec<Former>, host_size: usize, insert_size: usize) -> Sweep {
    let mut hosts_space = TermSpace::new(atoms.clone(), formers.clone());
    let n_hosts = hosts_space.total_upto(host_size);
    let hosts: Rc<Vec<M>> = Rc::new((0..n_hosts).map(|i| hosts_space.unrank_global(host_size, i)).collect());
    let space = Rc::new(RefCell::new(TermSpace::new(atoms, formers)));
    let total = space.borrow_mut().total_upto(insert_size);
    let s2 = space.clone();
    Sweep::new(
        &format!("every inserted term of at most {insert_size} nodes into every host of at most {host_size} nodes"),
        total,
        move |idx| {
            let u = space.borrow_mut().unrank_global(insert_size, idx);
            let mut fv = std::collections::BTreeSet::new();
            crate::model::mterm::free_vars(&u, 0, &mut fv);
            if fv.is_empty() {
                return;
            }
            count!("evaluations");
            count!("inserted_terms");
            let ru = real(&u);
            for t in hosts.iter() {
                let rt = real(t);
                for index in 0..3usize {
                    for s in 0..=index {
                        count!("calls");
                        let want = subst::expected_open(t, index, &u, s, WIDTH);
                        let got = guard(|| crate::de_bruijn::open(&rt, index, &ru, s));
                        let input = || format!("open({}, index {index}, insert {}, shift {s})", t.show(), u.show());
                        match (want, got) {
                            (_, Err(m)) => violation("open-panic", &input(), "a term", &m),
                            (None, _) => crate::infra::machinery(&format!("reference substitution undefined for {}", input())),
                            (Some(w), Ok(g)) => {
                                if w.alpha_eq(&mirror(&g)) {
                                    count!("open_ok");
                                } else {
                                    violation("open", &input(), &w.show(), &mirror(&g).show());
                                }
                            }
                        }
                    }
                }
            }
            count!("nontrivial");
        },
        move |idx| s2.borrow_mut().unrank_global(insert_size, idx).show(),
    )
}

fn reduced_formers() -> Vec<Former> {
    vec![Former::Lam(false), Former::Pi(false), Former::App, Former::Bin(Op::Add), Former::If, Former::Let(1), Former::Let(2)]
}

fn reduced_atoms() -> Vec<M> {
    let mut v = vec![M::Type];
    v.extend(all_atoms(4).into_iter().filter(|a| matches!(a, M::Var(..))));
    v
}

impl Prop for C11 {
    fn id(&self) -> &'static str {
        "C11"
    }
    fn sweeps(&self, tier: Tier) -> Vec<Sweep> {
        vec![
            sweep("all formers (groups of 1-3 definitions), indices < 4", all_atoms(4), all_formers(3), tier.pick(5, 6), 2),
            sweep("reduced formers (lambda, pi, application, sum, if, groups of 1-2), indices < 4", reduced_atoms(), reduced_formers(), tier.pick(7, 8), 2),
            insert_sweep(all_atoms(3), all_formers(2), 3, tier.pick(3, 4)),
        ]
    }
    fn evidence(&self, tier: Tier) -> EvidenceSpec {
        EvidenceSpec {
            level: "exploration",
            rule: "every hole-free de Bruijn term with at most n nodes over every term former (groups of 1-3 definitions) and variable indices < 4 (and, one size further, over a reduced set of formers); for each: free_variables at cutoffs 0-2; signed_shift at cutoffs 0-3 and amounts -3..3, and unsigned_shift for the non-negative amounts (72 calls incl. the algebraic laws: zero is identity, a downward shift undoes an upward one, shifts compose additively); open at indices 0-3 with up to 40 inserted terms and every insertion shift 0..index; in addition every term of at most 3/4 nodes that has a free variable is inserted into every host term of at most 3 nodes (every index below 3, every insertion shift); each result compared with the named reference semantics (a shift is insertion/removal of names in the context, opening is substitution for a name). evaluations = terms; all are non-trivial (each drives >= 100 calls)".to_owned(),
            assumptions: vec!["hole-free terms only, as the property states".to_owned()],
            evaluations: "evaluations",
            nontrivial: "nontrivial",
            states: None,
            transitions: None,
            traces: None,
            exhaustive: true,
            bounds: json!({"all_formers_max_nodes": tier.pick(5, 6), "reduced_formers_max_nodes": tier.pick(7, 8), "max_index": 3, "cutoffs": "0..3", "amounts": "-3..3"}),
            minimums: vec![("shift_ok", 100_000), ("shift_fails_as_predicted", 10_000), ("open_ok", 1_000_000), ("open_nonoccurring_ok", 1000)],
        }
    }
}
