// C15 — diagnostics point at the offending source text.
use crate::model::surface::S;
use crate::{
    bind::{self, Front, guard},
    enumerate::{Sentences, Seqs, name_simple},
    infra::{EvidenceSpec, Prop, Sweep, Tier, violation},
    model::{
        grammar::{Grammar, Tree},
        listing::{self, compare, expected_listing, read_listing, split_message},
        mterm::{M, mirror, shift},
        surface::{self, FromTree},
        tok::{self, K, Tok},
    },
    props::{c07, c09},
};
use serde_json::json;
use std::{cell::RefCell, rc::Rc};

pub struct C15;

// (a) `error::listing` itself on every (text, range).
fn listing_sweep(max: usize) -> Sweep {
    let alpha: Vec<&'static str> = vec!["a", "é", " ", "\t", "\n", "\r\n", "𝑥"];
    let seqs = Seqs::new(alpha.len(), max);
    let s2 = seqs.clone();
    let a2 = alpha.clone();
    let mut buf = vec![];
    Sweep::new(
        "error::listing on every text and range",
        seqs.count(),
        move |idx| {
            seqs.unrank(idx, &mut buf);
            let text = c09::concat(&alpha, &buf);
            count!("evaluations");
            let bounds: Vec<usize> = (0..=text.len()).filter(|i| text.is_char_boundary(*i)).collect();
            for (i, s) in bounds.iter().enumerate() {
                for e in &bounds[i..] {
                    // Only ranges a diagnostic can carry: from the first to the last character of some
                    // tokens (both non-blank), a single line break (the line-break terminator token), or
                    // an empty range (end of file).
                    let tokenish = s < e
                        && !text[*s..].chars().next().unwrap().is_whitespace()
                        && !text[..*e].chars().next_back().unwrap().is_whitespace();
                    let line_break = &text[*s..*e] == "\n";
                    if !(tokenish || line_break || s == e) {
                        continue;
                    }
                    count!("listing_calls");
                    let r = guard(|| crate::error::listing(&text, crate::error::SourceRange { start: *s, end: *e }));
                    let input = || format!("listing({text:?}, {s}..{e})");
                    let rendered = match r {
                        Err(m) => {
                            violation("listing-panic", &input(), "a listing", &m);
                            continue;
                        }
                        Ok(r) => r,
                    };
                    let shown = match read_listing(&rendered) {
                        Err(m) => {
                            violation("listing-malformed", &input(), "gutter/marker line pairs", &format!("{m}: {rendered:?}"));
                            continue;
                        }
                        Ok(s) => s,
                    };
                    if s == e {
                        // An empty range spans no text; only require that nothing is marked and that the
                        // lines shown (if any) touch the position.
                        if shown.iter().any(|l| l.marked.0 != l.marked.1) {
                            violation("listing-marks-empty-range", &input(), "nothing marked", &rendered);
                        }
                        continue;
                    }
                    let want = expected_listing(&text, *s, *e);
                    match compare(&shown, &want) {
                        Ok(()) => count!("listings_ok"),
                        Err(m) => violation("listing", &input(), &format!("{want:?}"), &format!("{m}; rendered {rendered:?}")),
                    }
                }
            }
            if buf.len() >= 2 {
                count!("nontrivial");
            }
        },
        move |idx| {
            let mut b = vec![];
            s2.unrank(idx, &mut b);
            format!("{:?}", c09::concat(&a2, &b))
        },
    )
}

// Layouts of a token list: returns (text, byte range of every token).
fn lay_out(toks: &[Tok], variant: usize) -> (String, Vec<(usize, usize)>) {
    let mut s = String::new();
    match variant {
        1 => s.push_str("\n"),
        2 => s.push_str(&"\n".repeat(8)),
        3 => s.push_str(&"\n".repeat(9)),
        4 => s.push_str("# é𝑥 comment\n\n"),
        5 => s.push_str("ééé = 1 ; "),
        6 => s.push_str("𝑥𝑥 = 1 ;\t"),
        _ => {}
    }
    let mut ranges = vec![];
    for (i, t) in toks.iter().enumerate() {
        if i > 0 {
            // variant 7/8: break lines wherever the rule allows (never between an ender and a starter)
            let breakable = !(toks[i - 1].k.is_ender() && t.k.is_starter());
            if variant == 7 && breakable {
                s.push_str("\n  ");
            } else if variant == 8 && breakable && i % 2 == 0 {
                s.push_str(" \r\n\t");
            } else {
                s.push(' ');
            }
        }
        let start = s.len();
        s.push_str(&t.text);
        ranges.push((start, s.len()));
    }
    (s, ranges)
}

const LAYOUTS: usize = 9;

// Does the diagnostic's (first) listing mark exactly [start, end)? `loose`: may the marks extend to
// parentheses that enclose nothing but the target?
// Does the diagnostic's (first) listing mark exactly [start, end) — or that range widened over
// parentheses that enclose nothing else?
fn points_at(text: &str, message: &str, start: usize, end: usize) -> Result<(), String> {
    let (head, listings) = split_message(message);
    let Some(l) = listings.first() else {
        return Err(format!("no listing: {message:?}"));
    };
    let shown = read_listing(l).map_err(|m| format!("{m}: {l:?}"))?;
    let mut cands = vec![(start, end)];
    let (mut s, mut e) = (start, end);
    loop {
        let before = text[..s].trim_end();
        let after = text[e..].trim_start();
        if before.ends_with('(') && after.starts_with(')') {
            s = before.len() - 1;
            e = text.len() - after.len() + 1;
            cands.push((s, e));
        } else {
            break;
        }
    }
    let mut last_err = String::new();
    for (s, e) in cands {
        match compare(&shown, &expected_listing(text, s, e)) {
            Ok(()) => return Ok(()),
            Err(m) => last_err = m,
        }
    }
    Err(format!("{head} :: {last_err} :: {l:?}"))
}

fn check_points_at(text: &str, message: &str, start: usize, end: usize, what: &str, sub: &str) -> bool {
    match points_at(text, message, start, end) {
        Ok(()) => true,
        Err(m) => {
            violation(sub, text, &format!("{what}: a listing marking exactly {:?} at bytes {start}..{end}", &text[start..end]), &m);
            false
        }
    }
}

// (c1) unbound names, (c2) re-bound names, (c3) stray symbols, on every sentence and every layout.
fn faults_sweep(name: &str, g: Grammar, min_len: usize, max_len: usize) -> Sweep {
    let sentences = Rc::new(RefCell::new(Sentences::new(g.clone(), min_len, max_len)));
    let total = sentences.borrow().total;
    let s2 = sentences.clone();
    let g2 = g.clone();
    Sweep::new(
        name,
        total * LAYOUTS as u64,
        move |case| {
            let idx = case / LAYOUTS as u64;
            let variant = (case % LAYOUTS as u64) as usize;
            let tree = sentences.borrow_mut().tree(idx);
            let toks = name_simple(&g, &tree);
            count!("evaluations");
            // --- unbound names: with an empty context every use `u` is unbound
            let (text, ranges) = lay_out(&toks, variant);
            let uses: Vec<usize> = toks.iter().enumerate().filter(|(_, t)| t.k == K::Identifier && t.text == "u").map(|(i, _)| i).collect();
            if !uses.is_empty() {
                bind::with_front(&text, &[], 2, |f| match f {
                    Front::ParseErr { errors, .. } => {
                        let msgs: Vec<String> = bind::messages(&errors).into_iter().filter(|m| m.contains("not in scope")).collect();
                        if msgs.len() != uses.len() {
                            violation("unbound-count", &text, &format!("{} `not in scope` diagnostics", uses.len()), &format!("{}", msgs.len()));
                            return;
                        }
                        // diagnostics come in source order
                        let mut ok = true;
                        for (m, u) in msgs.iter().zip(&uses) {
                            ok &= check_points_at(&text, m, ranges[*u].0, ranges[*u].1, "unbound name", "unbound-name-range");
                        }
                        if ok {
                            count!("unbound_ok", uses.len());
                            count!("nontrivial");
                        }
                    }
                    Front::Panic { message, .. } => violation("panic", &text, "diagnostics", &message),
                    other => violation("unbound-accepted", &text, "rejected: `u` is not in scope", other.stage_name()),
                });
            }
            // --- re-bound names: rename binder j to the name of binder i < j; if the scope model says
            // that is exactly one `already exists` fault, the diagnostic must mark binder j.
            let binders: Vec<usize> = toks.iter().enumerate().filter(|(_, t)| t.k == K::Identifier && t.text != "u").map(|(i, _)| i).collect();
            for (bi, i) in binders.iter().enumerate() {
                for j in &binders[bi + 1..] {
                    let mut t2 = toks.clone();
                    t2[*j] = Tok::ident(&toks[*i].text);
                    let raw = FromTree::new(&g, &t2).convert(&tree);
                    let model = surface::resolve(&surface::reassoc(&raw), &["u"]);
                    let Err(faults) = model else { continue };
                    if faults.len() != 1 || !matches!(faults[0], surface::Fault::AlreadyExists(_)) {
                        continue;
                    }
                    let (text, ranges) = lay_out(&t2, variant);
                    bind::with_front(&text, &["u"], 2, |f| match f {
                        Front::ParseErr { errors, .. } => {
                            let msgs: Vec<String> = bind::messages(&errors).into_iter().filter(|m| m.contains("already exists")).collect();
                            if msgs.len() != 1 {
                                violation("rebound-count", &text, "one `already exists` diagnostic", &format!("{}", msgs.len()));
                            } else if check_points_at(&text, &msgs[0], ranges[*j].0, ranges[*j].1, "re-bound name", "rebound-name-range") {
                                count!("rebound_ok");
                            }
                        }
                        Front::Panic { message, .. } => violation("panic", &text, "diagnostics", &message),
                        other => violation("rebound-accepted", &text, "rejected: the name already exists", other.stage_name()),
                    });
                }
            }
            // --- stray symbols in every gap (only for the first three layouts, to bound the cost)
            if variant < 3 || variant == 5 {
                for gap in 0..=toks.len() {
                    for sym in ["$", "\u{301}", "👍"] {
                        let mut t2 = toks.clone();
                        t2.insert(gap, Tok { k: K::Identifier, text: sym.to_owned() });
                        let (text, ranges) = lay_out(&t2, variant);
                        let r = guard(|| crate::tokenizer::tokenize(None, &text));
                        match r {
                            Ok(Err(errors)) if errors.len() == 1 => {
                                if check_points_at(&text, &errors[0].message, ranges[gap].0, ranges[gap].1, "unexpected symbol", "stray-symbol-range") {
                                    count!("stray_ok");
                                }
                            }
                            Ok(Err(errors)) => violation("stray-count", &text, "one diagnostic", &format!("{}", errors.len())),
                            Ok(Ok(_)) => violation("stray-accepted", &text, "an `Unexpected symbol` diagnostic", "tokens"),
                            Err(m) => violation("panic", &text, "diagnostics", &m),
                        }
                    }
                }
            }
        },
        move |case| {
            let tree = s2.borrow_mut().tree(case / LAYOUTS as u64);
            format!("layout {} of: {}", case % LAYOUTS as u64, tok::layout(&name_simple(&g2, &tree)).0)
        },
    )
}

// (c4) type faults: into every position of a well-typed program whose expected class is fixed by its
// context (operand of arithmetic / comparison / negation: int; condition: bool; annotation, domain and
// codomain of a function type: type; applicand: function) an atom of a wrong class with a unique spelling is planted; some diagnostic
// must mark exactly the planted text.
const UNIQ_INT: &str = "424242";

fn uniq_lam() -> S {
    S::Lam { name: "w9".to_owned(), implicit: false, ann: Some(surface::bx(S::Int)), body: surface::bx(S::Var("w9".to_owned())) }
}

fn plantings(s: &S) -> Vec<(S, &'static str)> {
    use crate::model::mterm::Op;
    use surface::bx;
    // rewrite exactly one position; `slot` says what the position expects
    #[derive(Clone, Copy, PartialEq)]
    enum Slot {
        Int,
        Bool,
        Type,
        Function,
        Other,
    }
    fn go(s: &S, slot: Slot) -> Vec<(S, &'static str)> {
        let mut out = vec![];
        match slot {
            Slot::Int | Slot::Bool => out.push((uniq_lam(), "( w9 : int ) => w9")),
            _ => {}
        }
        match slot {
            Slot::Bool | Slot::Type | Slot::Function => out.push((S::Lit(UNIQ_INT.to_owned()), UNIQ_INT)),
            _ => {}
        }
        let mut with = |make: &dyn Fn(S) -> S, child: &S, slot: Slot| {
            for (c, mark) in go(child, slot) {
                out.push((make(c), mark));
            }
        };
        match s {
            S::Lam { name, implicit, ann, body } => {
                if let Some(a) = ann {
                    with(&|c| S::Lam { name: name.clone(), implicit: *implicit, ann: Some(bx(c)), body: body.clone() }, a, Slot::Type);
                }
                with(&|c| S::Lam { name: name.clone(), implicit: *implicit, ann: ann.clone(), body: bx(c) }, body, Slot::Other);
            }
            S::Pi { name, implicit, dom, cod } => {
                with(&|c| S::Pi { name: name.clone(), implicit: *implicit, dom: bx(c), cod: cod.clone() }, dom, Slot::Type);
                with(&|c| S::Pi { name: name.clone(), implicit: *implicit, dom: dom.clone(), cod: bx(c) }, cod, Slot::Type);
            }
            S::App(a, b) => {
                with(&|c| S::App(bx(c), b.clone()), a, Slot::Function);
                with(&|c| S::App(a.clone(), bx(c)), b, Slot::Other);
            }
            S::Bin(o, a, b) => {
                with(&|c| S::Bin(*o, bx(c), b.clone()), a, Slot::Int);
                with(&|c| S::Bin(*o, a.clone(), bx(c)), b, Slot::Int);
            }
            S::Let { name, ann, def, body } => {
                if let Some(a) = ann {
                    with(&|c| S::Let { name: name.clone(), ann: Some(bx(c)), def: def.clone(), body: body.clone() }, a, Slot::Type);
                }
                with(&|c| S::Let { name: name.clone(), ann: ann.clone(), def: bx(c), body: body.clone() }, def, Slot::Other);
                with(&|c| S::Let { name: name.clone(), ann: ann.clone(), def: def.clone(), body: bx(c) }, body, Slot::Other);
            }
            S::Neg(a) => with(&|c| S::Neg(bx(c)), a, Slot::Int),
            S::Paren(a) => with(&|c| S::Paren(bx(c)), a, slot),
            S::If(a, b, c3) => {
                with(&|c| S::If(bx(c), b.clone(), c3.clone()), a, Slot::Bool);
                with(&|c| S::If(a.clone(), bx(c), c3.clone()), b, Slot::Other);
                with(&|c| S::If(a.clone(), b.clone(), bx(c)), c3, Slot::Other);
            }
            _ => {}
        }
        let _ = Op::Add;
        out
    }
    go(s, Slot::Other)
}

fn type_faults_sweep(tier: Tier) -> Sweep {
    let progs = crate::props::sem::typed_programs(tier.pick(5, 6));
    let p2 = progs.clone();
    Sweep::new(
        "type faults planted at every position whose expected class is fixed by its context",
        progs.len() as u64,
        move |idx| {
            let (_, s) = &progs[idx as usize];
            for (planted, mark) in plantings(s) {
                for prefix in ["", "ééé = 1 ; "] {
                    let text = format!("{prefix}{}", surface::print(&planted));
                    let Some(start) = text.find(mark) else { continue };
                    if text[start + mark.len()..].contains(mark) {
                        continue; // the spelling must be unique in the text
                    }
                    let end = start + mark.len();
                    count!("evaluations");
                    count!("type_fault_plantings");
                    crate::props::sem::front_end(&text, |f| match f {
                        crate::props::sem::FrontEnd::Rejected { stage: "type_check", messages, .. } => {
                            let mut last = String::new();
                            for m in &messages {
                                match points_at(&text, m, start, end) {
                                    Ok(()) => {
                                        count!("type_fault_ok");
                                        count!("nontrivial");
                                        return;
                                    }
                                    Err(e) => last = e,
                                }
                            }
                            // the planted atom sits where the context fixes its class, so a diagnostic for it
                            // is owed; but the checker may legitimately report the mismatch one level up
                            // when the planted atom changes the type of an enclosing definition
                            violation("type-fault-range", &text, &format!("some diagnostic marking exactly the planted {mark:?} at bytes {start}..{end}"), &format!("{} diagnostics, none points there; last: {last}", messages.len()));
                        }
                        crate::props::sem::FrontEnd::Rejected { .. } => count!("planting_rejected_earlier"),
                        crate::props::sem::FrontEnd::Accepted(_) => count!("planting_accepted"),
                        crate::props::sem::FrontEnd::Panic { message, .. } => violation("panic", &text, "diagnostics", &message),
                    });
                }
            }
        },
        move |idx| format!("type faults planted into: {}", surface::print(&p2[idx as usize].1)),
    )
}

// Type faults whose range spans several lines, placed after k preceding lines for every k around the
// places where the width of the line numbers changes (9 -> 10, 99 -> 100, 999 -> 1000): the excerpt
// shows several numbered lines whose numbers have different widths.
fn multiline_faults_sweep() -> Sweep {
    const SHAPES: [(&str, &str); 5] = [
        // the operand is written in parentheses; the diagnostic may cover it with or without them
        ("if (@) then 1 else 2", "1 +\n  2 +\n  3"),
        ("(x : (@)) => x", "1 +\n    2"),
        ("k : (int -> int) = (n : int) => n; k (@)", "(1 +\n 2) <\n 3"),
        ("é = 1; if (@) then é else 2", "é *\n\t2 *\n\t3 *\n\t4"),
        ("b : bool = (@); b", "1 -\r\n 2"),
    ];
    let mut ks: Vec<usize> = (0..=12).collect();
    ks.extend(94..=101);
    ks.extend(995..=1001);
    let ks = Rc::new(ks);
    let k2 = ks.clone();
    Sweep::new(
        "type faults with multi-line ranges after k preceding lines (line-number widths change inside the excerpt)",
        (ks.len() * SHAPES.len() * 2) as u64,
        move |idx| {
            let i = idx as usize;
            let (context, target) = SHAPES[(i / 2) % SHAPES.len()];
            let k = ks[i / (2 * SHAPES.len())];
            let filler = if i % 2 == 0 { "\n" } else { "# é\n" };
            let text = format!("{}{}", filler.repeat(k), context.replace('@', target));
            let start = text.find(target).unwrap();
            let end = start + target.len();
            count!("evaluations");
            count!("multiline_faults");
            crate::props::sem::front_end(&text, |f| match f {
                crate::props::sem::FrontEnd::Rejected { stage: "type_check", messages, .. } => {
                    let mut last = String::new();
                    for m in &messages {
                        match points_at(&text, m, start, end) {
                            Ok(()) => {
                                count!("multiline_fault_ok");
                                count!("nontrivial");
                                return;
                            }
                            Err(e) => last = e,
                        }
                    }
                    violation("multi-line-fault-range", &text[text.len() + 1 - context.len() - target.len()..], &format!("after {k} lines: a diagnostic marking exactly the {}-line operand", target.lines().count()), &format!("{} diagnostics, none points there; last: {last}", messages.len()));
                }
                crate::props::sem::FrontEnd::Panic { message, .. } => violation("panic", &text, "diagnostics", &message),
                _ => crate::infra::machinery(&format!("multi-line fault program is not rejected by the type checker: {:?}", &text[text.len().saturating_sub(80)..])),
            });
        },
        move |idx| format!("shape {} after {} lines", (idx as usize / 2) % SHAPES.len(), k2[idx as usize / (2 * SHAPES.len())]),
    )
}

// Compound offenders: a well-typed compound expression of one class (every arithmetic operator, a
// negation, a call, a conditional, a group of class int; every comparison and a conditional of class
// bool; function types and a conditional of class type; a function) written where another class is
// required (a condition, an operand of each kind of operator, an argument, an annotated definition).
// The offending subexpression is the whole compound — every node of the elaborated term has to carry
// the range of the node it was elaborated from, not the range of one of its parts. Some diagnostic
// must mark exactly the compound (or the parentheses that enclose nothing else).
fn compound_offender_sweep() -> Sweep {
    const INTS: [&str; 15] = [
        "f 1 2", "g (1)", "1 + 2", "1 - 2", "1 * 2", "1 / 2", "-g 1", "-(1)", "if true then 1 else 2", "(q : int = 1; q)", "1 + 2 * 3", "1 / 2 / 3", "g 1 / g 2", "1 * 2 / 3",
        "1 /\n  2",
    ];
    const BOOLS: [&str; 8] = ["1 < 2", "1 <= 2", "1 == 2", "1 > 2", "1 >= 2", "if true then true else false", "h 1", "1 + 1 >=\n  2"];
    const TYPES: [&str; 3] = ["int -> int", "(z : int) -> int", "if true then int else bool"];
    const FUNS: [&str; 2] = ["(z : int) => z", "{z : type} => z"];
    // contexts that require a bool / an int there; the operand is always written in parentheses
    const WANT_BOOL: [&str; 4] = ["if (@) then 1 else 2", "bb : bool = (@); 1", "k (@)", "(y : bool -> int) => y (@)"];
    const WANT_INT: [&str; 9] = ["1 + (@)", "(@) + 1", "(-(@))", "nn : int = (@); 1", "g (@)", "(@) * 2", "2 / (@)", "(@) < 1", "1 - (@) - 1"];
    const PREFIXES: [&str; 3] = [
        "f : (int -> int -> int) = (a : int) => (b : int) => a + b; g : (int -> int) = (a : int) => a; h : (int -> bool) = (a : int) => true; k : (bool -> int) = (b : bool) => 1; ",
        "f : (int -> int -> int) = (a : int) => (b : int) => a + b\ng : (int -> int) = (a : int) => a\nh : (int -> bool) = (a : int) => true\nk : (bool -> int) = (b : bool) => 1\n\n",
        "f : (int -> int -> int) = (a : int) => (b : int) => a + b; g : (int -> int) = (a : int) => a; h : (int -> bool) = (a : int) => true; k : (bool -> int) = (b : bool) => 1; é = 1; ",
    ];
    let mut cases: Vec<(&'static str, &'static str)> = vec![];
    for o in INTS {
        for c in WANT_BOOL {
            cases.push((c, o));
        }
    }
    for o in BOOLS.iter().chain(TYPES.iter()).chain(FUNS.iter()) {
        for c in WANT_INT {
            cases.push((c, o));
        }
    }
    for o in TYPES.iter().chain(FUNS.iter()) {
        for c in WANT_BOOL {
            cases.push((c, o));
        }
    }
    let cases = Rc::new(cases);
    let c2 = cases.clone();
    Sweep::new(
        "compound offenders (every kind of compound expression where another class is required)",
        (cases.len() * PREFIXES.len()) as u64,
        move |idx| {
            let (context, operand) = cases[idx as usize / PREFIXES.len()];
            let prefix = PREFIXES[idx as usize % PREFIXES.len()];
            let text = format!("{prefix}{}", context.replace('@', operand));
            let start = prefix.len() + context.find('@').unwrap();
            let end = start + operand.len();
            count!("evaluations");
            count!("compound_offenders");
            crate::props::sem::front_end(&text, |f| match f {
                crate::props::sem::FrontEnd::Rejected { stage: "type_check", messages, .. } => {
                    let mut last = String::new();
                    for m in &messages {
                        match points_at(&text, m, start, end) {
                            Ok(()) => {
                                count!("compound_offender_ok");
                                count!("nontrivial");
                                return;
                            }
                            Err(e) => last = e,
                        }
                    }
                    violation("type-fault-marks-other-text", &text[prefix.len()..], &format!("a diagnostic marking exactly the offending expression {operand:?}"), &format!("{} diagnostics, none points there; last: {last}", messages.len()));
                }
                crate::props::sem::FrontEnd::Panic { message, .. } => violation("panic", &text, "diagnostics", &message),
                crate::props::sem::FrontEnd::Rejected { stage, messages, .. } => crate::infra::machinery(&format!("compound-offender program is rejected by {stage}: {text:?}: {messages:?}")),
                crate::props::sem::FrontEnd::Accepted(_) => crate::infra::machinery(&format!("compound-offender program is accepted: {text:?}")),
            });
        },
        move |idx| {
            let (context, operand) = c2[idx as usize / 3];
            context.replace('@', operand)
        },
    )
}

// Definition-order diagnostics ("The definition of `X` references `Y` (directly or indirectly), which will
// not be available in time"): groups of three definitions, each a literal, a function mentioning a subset
// of the group or a computed expression mentioning a subset (the definition-order family of C13), in
// three layouts (one line; one definition per line; non-ASCII names, comment lines between the
// definitions, expressions broken after every `+`, after nine blank lines) and two placements (top
// level; inside a called function). The offending text is the definition the message names: the
// excerpt shows lines of the file as they are, and everything it marks lies inside the definition of X
// (from its name to the end of its right-hand side) — not in another member, not in the body.
fn order_faults_sweep(stride: u64) -> Sweep {
    const K: usize = 3;
    let per_def: u64 = 1 + 2 * (1 << K);
    let total = per_def.pow(K as u32) * 3 * 2;
    // (text, [definition name, byte range of the whole definition])
    fn build(mut idx: u64) -> (String, Vec<(String, usize, usize)>) {
        let per_def: u64 = 1 + 2 * (1 << K);
        let layout = idx % 3;
        idx /= 3;
        let nested = idx % 2 == 1;
        idx /= 2;
        let name = |i: usize| if layout == 2 { format!("é{i}") } else { format!("d{i}") };
        let plus = if layout == 2 { " +\n    " } else { " + " };
        let mut text = String::new();
        if layout == 2 {
            text.push_str(&"\n".repeat(9));
        }
        if nested {
            text.push_str(if layout == 0 { "f = (q => r => (" } else { "f = (q => r => (\n" });
        }
        let mut defs = vec![];
        for i in 0..K {
            let c = idx % per_def;
            idx /= per_def;
            let (kind, set) = if c == 0 { (0, 0) } else if c <= (1 << K) { (1, c - 1) } else { (2, c - 1 - (1 << K)) };
            let mut expr = String::from("1");
            for j in 0..K {
                if set & (1 << j) != 0 {
                    expr.push_str(plus);
                    expr.push_str(&name(j));
                }
            }
            let rhs = match kind {
                0 => "1".to_owned(),
                1 => format!("(p{i} => {expr})"),
                _ => {
                    if set == 0 { format!("1{plus}1") } else { expr }
                }
            };
            let start = text.len();
            text.push_str(&format!("{} = {rhs}", name(i)));
            defs.push((name(i), start, text.len()));
            text.push_str(match layout {
                0 => "; ",
                1 => "\n",
                _ => "\n# é𝑥\n\n",
            });
        }
        text.push_str(&name(0));
        if nested {
            text.push_str(if layout == 0 { ")); f 1 2" } else { "\n))\nf 1 2" });
        }
        (text, defs)
    }
    Sweep::new(
        "definition-order diagnostics: the excerpt lies in the definition that the message names",
        total.div_ceil(stride),
        move |i| {
            let (text, defs) = build(i * stride);
            count!("evaluations");
            bind::with_front(&text, &[], 2, |f| match f {
                Front::Panic { message, .. } => violation("panic", &text, "diagnostics", &message),
                Front::TokenizeErr(e) => crate::infra::machinery(&format!("order-family program does not tokenize: {text:?}: {:?}", bind::messages(&e))),
                Front::ParseErr { errors, .. } => {
                    let lines: Vec<&str> = text.split('\n').collect();
                    let mut line_starts = vec![0usize];
                    for l in &lines {
                        line_starts.push(line_starts.last().unwrap() + l.len() + 1);
                    }
                    let mut seen = 0;
                    for m in bind::messages(&errors) {
                        let Some(rest) = m.split("The definition of `").nth(1) else { continue };
                        if !m.contains("will not be available in time") {
                            continue;
                        }
                        let x = rest.split('`').next().unwrap_or("");
                        let Some((_, ds, de)) = defs.iter().find(|(n, _, _)| n == x) else {
                            violation("order-diagnostic-names-no-definition", &text, "the message names a member of the group", &m);
                            return;
                        };
                        let (_, listings) = split_message(&m);
                        let Some(l) = listings.first() else {
                            violation("order-diagnostic-without-excerpt", &text, "a source excerpt", &m);
                            return;
                        };
                        let shown = match read_listing(l) {
                            Ok(s) if !s.is_empty() => s,
                            other => {
                                violation("order-diagnostic-excerpt-unreadable", &text, "numbered lines with marks", &format!("{other:?} :: {l:?}"));
                                return;
                            }
                        };
                        let mut any = false;
                        for sl in &shown {
                            let Some(line) = lines.get(sl.number.wrapping_sub(1)) else {
                                violation("order-diagnostic-marks-other-text", &text, "line numbers of the file", &format!("line {} :: {l:?}", sl.number));
                                return;
                            };
                            if line.trim_end() != sl.content {
                                violation("order-diagnostic-marks-other-text", &text, &format!("line {} shown as it is: {:?}", sl.number, line.trim_end()), &format!("{:?}", sl.content));
                                return;
                            }
                            if sl.marked.0 == sl.marked.1 {
                                continue;
                            }
                            any = true;
                            let byte = |col: usize| line_starts[sl.number - 1] + line.char_indices().nth(col).map_or(line.len(), |(b, _)| b);
                            let (ms, me) = (byte(sl.marked.0), byte(sl.marked.1));
                            if ms < *ds || me > *de {
                                violation(
                                    "order-diagnostic-marks-other-text",
                                    &text,
                                    &format!("marks inside the definition of `{x}`, bytes {ds}..{de}: {:?}", &text[*ds..*de]),
                                    &format!("line {} marks bytes {ms}..{me}: {:?} :: {}", sl.number, text.get(ms..me).unwrap_or("?"), m.lines().next().unwrap_or("")),
                                );
                                return;
                            }
                        }
                        if !any {
                            violation("order-diagnostic-marks-other-text", &text, "some marked text", &format!("{l:?}"));
                            return;
                        }
                        seen += 1;
                    }
                    if seen > 0 {
                        count!("order_diagnostics_ok", seen);
                        count!("nontrivial");
                    }
                }
                _ => {
                    count!("order_family_accepted");
                }
            });
        },
        move |i| build(i * stride).0,
    )
}

// (b) range bookkeeping: the source range of every node of the parse result denotes that node.
fn visit<'a>(t: &crate::term::Term<'a>, depth: usize, f: &mut impl FnMut(&crate::term::Term<'a>, usize)) {
    use crate::term::Variant as V;
    f(t, depth);
    match &t.variant {
        V::Lambda(_, _, a, b) | V::Pi(_, _, a, b) => {
            visit(a, depth, f);
            visit(b, depth + 1, f);
        }
        V::Application(a, b)
        | V::Sum(a, b)
        | V::Difference(a, b)
        | V::Product(a, b)
        | V::Quotient(a, b)
        | V::LessThan(a, b)
        | V::LessThanOrEqualTo(a, b)
        | V::EqualTo(a, b)
        | V::GreaterThan(a, b)
        | V::GreaterThanOrEqualTo(a, b) => {
            visit(a, depth, f);
            visit(b, depth, f);
        }
        V::Let(ds, b) => {
            let d = depth + ds.len();
            for (_, a, e) in ds {
                visit(a, d, f);
                visit(e, d, f);
            }
            visit(b, d, f);
        }
        V::Negation(a) => visit(a, depth, f),
        V::If(a, b, c) => {
            visit(a, depth, f);
            visit(b, depth, f);
            visit(c, depth, f);
        }
        _ => {}
    }
}

// Finding F-RANGE-CHAIN: a parenthesised chain (application, * /, + -) that is re-associated on its
// own records a range without its parentheses, and the chain nodes built around it compute their
// ranges from it, so their ranges start after its `(` or end before its `)`. Model of the defect: the
// node is a chain node, and the recorded range extended over the missing parentheses on the left
// and/or right re-parses to exactly the node.
pub fn is_range_chain_defect(src: &str, start: usize, end: usize, want: &M, depth: usize) -> bool {
    if !crate::findings::is_known("F-RANGE-CHAIN") {
        return false;
    }
    if !matches!(want, M::App(..) | M::Bin(crate::model::mterm::Op::Add | crate::model::mterm::Op::Sub | crate::model::mterm::Op::Mul | crate::model::mterm::Op::Div, ..)) {
        return false;
    }
    // candidate starts: the recorded start moved left over 0..4 opening parentheses;
    // candidate ends: the recorded end moved right over 0..4 closing parentheses
    let mut starts = vec![start];
    let mut s = start;
    for _ in 0..4 {
        let before = src[..s].trim_end();
        if !before.ends_with('(') {
            break;
        }
        s = before.len() - 1;
        starts.push(s);
    }
    let mut ends = vec![end];
    let mut e = end;
    for _ in 0..4 {
        let after = src[e..].trim_start();
        if !after.starts_with(')') {
            break;
        }
        e = src.len() - after.len() + 1;
        ends.push(e);
    }
    for (i, s) in starts.iter().enumerate() {
        for (j, e) in ends.iter().enumerate() {
            if i == 0 && j == 0 {
                continue;
            }
            let slice = &src[*s..*e];
            let ok = bind::with_front(slice, &["u"], 2, |f2| match f2 {
                Front::TypeErr { term: t2, .. } | Front::Ok { term: t2, .. } => {
                    shift(&mirror(t2), 0, depth as isize).is_some_and(|b| crate::props::c16::same_modulo_printing(want, &b))
                }
                _ => false,
            });
            if ok {
                return true;
            }
        }
    }
    false
}

fn ranges_sweep(name: &str, g: Grammar, min_len: usize, max_len: usize) -> Sweep {
    let sentences = Rc::new(RefCell::new(Sentences::new(g.clone(), min_len, max_len)));
    let total = sentences.borrow().total;
    let s2 = sentences.clone();
    let g2 = g.clone();
    Sweep::new(
        name,
        total,
        move |idx| {
            let tree = sentences.borrow_mut().tree(idx);
            let toks = name_simple(&g, &tree);
            let (src, ranges) = tok::layout(&toks);
            let real = tok::real_tokens(&src, &toks, &ranges);
            count!("evaluations");
            bind::with_tokens(&src, &real, &["u"], 2, |f| {
                let (Front::TypeErr { term, .. } | Front::Ok { term, .. }) = f else { return };
                let mut all_ok = true;
                visit(term, 0, &mut |node, depth| {
                    let Some(r) = node.source_range else { return };
                    count!("nodes");
                    if r.start > r.end || r.end > src.len() || !src.is_char_boundary(r.start) || !src.is_char_boundary(r.end) {
                        violation("range-out-of-bounds", &src, "a range inside the file on character boundaries", &format!("{}..{}", r.start, r.end));
                        all_ok = false;
                        return;
                    }
                    let slice = &src[r.start..r.end];
                    let want = mirror(node);
                    // holes have no text of their own; binders in scope above the node are not visible to
                    // a stand-alone parse, but simply-named sentences never use them (uses are `u`).
                    let ok = bind::with_front(slice, &["u"], 2, |f2| match f2 {
                        Front::TypeErr { term: t2, .. } | Front::Ok { term: t2, .. } => {
                            let back = mirror(t2);
                            shift(&back, 0, depth as isize).is_some_and(|b| crate::props::c16::same_modulo_printing(&want, &b))
                        }
                        _ => false,
                    });
                    if ok {
                        count!("node_ranges_ok");
                    } else if is_range_chain_defect(&src, r.start, r.end, &want, depth) {
                        crate::infra::known("F-RANGE-CHAIN", || format!("in {src:?} the node {} has the range {slice:?}", want.show()));
                    } else {
                        all_ok = false;
                        violation("range-does-not-denote-node", &src, &format!("the range of node {} re-parses to that node", want.show()), &format!("range {}..{} = {slice:?}", r.start, r.end));
                    }
                });
                if all_ok && toks.len() >= 3 {
                    count!("nontrivial");
                }
            });
        },
        move |idx| {
            let tree = s2.borrow_mut().tree(idx);
            tok::layout(&name_simple(&g2, &tree)).0
        },
    )
}

impl Prop for C15 {
    fn id(&self) -> &'static str {
        "C15"
    }
    fn sweeps(&self, tier: Tier) -> Vec<Sweep> {
        let g = Grammar::load();
        let class = g.restrict(&c07::class_alphabet(), &[]);
        let mut v = vec![
            listing_sweep(tier.pick(5, 6)),
            faults_sweep("planted faults x layouts, full alphabet", g.clone(), 1, tier.pick(4, 5)),
            faults_sweep("planted faults x layouts, class alphabet", class.clone(), tier.pick(5, 6), tier.pick(6, 7)),
            ranges_sweep("node ranges, full alphabet", g.clone(), 1, tier.pick(5, 6)),
            ranges_sweep("node ranges, class alphabet", class, 6, tier.pick(7, 8)),
            type_faults_sweep(tier),
            multiline_faults_sweep(),
            order_faults_sweep(tier.pick(1, 1)),
            compound_offender_sweep(),
        ];
        for (name, sg) in c07::slices(&g) {
            if name == "binders" || name == "let-groups" {
                v.push(faults_sweep(&format!("planted faults x layouts, slice {name}"), sg.clone(), 5, tier.pick(9, 10)));
            }
            if name != "let-in-binder-domain" {
                v.push(ranges_sweep(&format!("node ranges, slice {name}"), sg, tier.pick(8, 9), tier.pick(10, 12)));
            }
        }
        v
    }
    fn evidence(&self, tier: Tier) -> EvidenceSpec {
        EvidenceSpec {
            level: "exploration",
            rule: "(a) error::listing on every text up to 5/6 fragments over {a, é, 4-byte letter, space, tab, LF, CRLF} and every range on character boundaries, compared with the specification (lines intersecting the range, 1-based numbers, marked character columns); (b) for every node of the parse result of every sentence up to the bounds, the node's source range is inside the file and its text re-parses to that node; (c) every sentence up to the bounds in 9 layouts (fault on line 1 / 2 / 9 / 10 so that the gutter widens, after a non-ASCII comment, after 2- and 4-byte identifiers on the same line, broken over lines wherever the line-break rule allows, CRLF+tab continuation lines) with planted faults: every use unbound, every binder re-bound to an enclosing binder's name (all binder forms), a stray symbol ($, a combining mark, a 4-byte emoji) in every gap; type faults: into every operand / condition / annotation / function-type domain and codomain / applicand position of every type-directed program up to 5 [6] nodes an atom of a wrong class with a unique spelling is planted (plain and after non-ASCII text on the same line) and some diagnostic must mark exactly it; 280 type faults whose operand is written over two to four lines (LF, CRLF, tab-indented, after non-ASCII text) are placed after k preceding lines for every k in 0..12, 94..101 and 995..1001, so that the excerpt's line numbers change width inside it; the diagnostic's listing must mark exactly the planted identifier / symbol (or the parentheses that enclose nothing else). Compound offenders: every arithmetic operator, negation, call, conditional and group of class int, every comparison of class bool, function types and functions, written where another class is required (4 + 9 contexts, 3 layouts, 591 programs): some diagnostic must mark exactly the compound. Definition-order diagnostics: the definition-order family k = 3 in three layouts (one line; one definition per line; non-ASCII names with comment lines, broken expressions and nine preceding lines) and two placements: the excerpt shows lines of the file as they are and everything it marks lies inside the definition the message names. evaluations = texts + sentences x layouts".to_owned(),
            assumptions: vec![
                "a diagnostic for a parenthesised operand may cover the operand with or without the parentheses that enclose it and nothing else".to_owned(),
                "type faults are planted only where the context fixes the expected class (operands, conditions, annotations, applicands) and with uniquely spelled atoms, so the offending subexpression is known by construction".to_owned(),
                "NO_COLOR rendering (overline row) is what is read back".to_owned(),
            ],
            evaluations: "evaluations",
            nontrivial: "nontrivial",
            states: None,
            transitions: None,
            traces: None,
            exhaustive: true,
            bounds: json!({"listing_max_fragments": tier.pick(5, 6), "faults_full_alphabet_max_tokens": tier.pick(4, 5), "faults_class_alphabet_max_tokens": tier.pick(6, 7), "ranges_max_tokens": tier.pick(9, 12)}),
            minimums: vec![("listings_ok", 100_000), ("unbound_ok", 10_000), ("rebound_ok", 1_000), ("stray_ok", 10_000), ("node_ranges_ok", 100_000), ("order_diagnostics_ok", 5_000)],
        }
    }
}
