// C10 — comments, spacing and line layout do not change a program's meaning.
//
// Explicit-state exploration of layouts: a state is (sentence, filler vector); a transition replaces
// the filler of one gap; all states with at most d non-default gaps are visited (deviation-bounded
// BFS with dedup on the filler vector), and in each state the real token stream is compared with the
// stream the rule of C10 predicts. Plus all strings over a layout-focused alphabet against the
// reference lexer.
use crate::{
    bind::{self, Front, guard},
    enumerate::{Sentences, name_simple},
    findings,
    infra::{EvidenceSpec, Prop, Sweep, Tier, violation},
    model::{
        grammar::Grammar,
        lexer::{self, Lexed},
        mterm::mirror,
        tok::{K, Tok, kind_of},
    },
    props::c09,
};
use serde_json::json;
use std::{cell::RefCell, rc::Rc};

pub struct C10;

pub fn sigma_lay() -> Vec<&'static str> {
    vec!["x", "1", "+", "(", ")", ";", "=", "#", "\n", " ", "é", "then"]
}

#[derive(Clone, Copy, PartialEq, Eq, Debug)]
enum FClass {
    Neutral,
    Breaking,
    FinalComment,
}

// (filler, class). Index 0 is the default filler.
fn menu() -> Vec<(&'static str, FClass)> {
    vec![
        (" ", FClass::Neutral),
        ("", FClass::Neutral),
        ("\t", FClass::Neutral),
        ("  ", FClass::Neutral),
        ("\r", FClass::Neutral),
        ("\n", FClass::Breaking),
        ("\n\n", FClass::Breaking),
        (" \n ", FClass::Breaking),
        ("\r\n", FClass::Breaking),
        ("#\n", FClass::Breaking),
        ("# c\n", FClass::Breaking),
        ("#é\n", FClass::Breaking),
        ("#👍\n", FClass::Breaking),
        (" # x = 1 \n\t", FClass::Breaking),
        ("#", FClass::FinalComment),
        ("# c", FClass::FinalComment),
        ("#é", FClass::FinalComment),
    ]
}

fn merges(a: &Tok, b: &Tok) -> bool {
    // Do the two token texts, written without a gap, lex as anything other than the two tokens?
    let s = format!("{}{}", a.text, b.text);
    match lexer::lex(&s) {
        Lexed::Tokens(v) => !(v.len() == 2 && v[0].k == a.k && v[0].end == a.text.len() && v[1].k == b.k),
        Lexed::Illegal(_) => true,
    }
}

struct Layouts {
    g: Grammar,
    sentences: Sentences,
    deviations: usize,
}

fn render(toks: &[Tok], fillers: &[usize], menu: &[(&'static str, FClass)]) -> String {
    // fillers.len() == toks.len() + 1; gap 0 is before the first token, the last after the last one.
    let mut s = String::new();
    for (i, t) in toks.iter().enumerate() {
        // the default filler of the outer gaps is the empty string
        let f = if i == 0 && fillers[0] == 0 { "" } else { menu[fillers[i]].0 };
        s.push_str(f);
        s.push_str(&t.text);
    }
    let last = fillers[toks.len()];
    s.push_str(if last == 0 { "" } else { menu[last].0 });
    s
}

// The token stream the rule predicts for a layout.
fn predicted(toks: &[Tok], fillers: &[usize], menu: &[(&'static str, FClass)]) -> Vec<(K, String)> {
    let mut out = vec![];
    for (i, t) in toks.iter().enumerate() {
        if i > 0 && menu[fillers[i]].1 == FClass::Breaking && toks[i - 1].k.is_ender() && t.k.is_starter() {
            out.push((K::LineBreak, "\n".to_owned()));
        }
        out.push((t.k, t.text.clone()));
    }
    out
}

fn applicable(toks: &[Tok], gap: usize, f: usize, menu: &[(&'static str, FClass)]) -> bool {
    let n = toks.len();
    match menu[f].1 {
        FClass::FinalComment => gap == n,
        FClass::Breaking => true,
        FClass::Neutral => {
            if menu[f].0.is_empty() {
                gap == 0 || gap == n || !merges(&toks[gap - 1], &toks[gap])
            } else {
                true
            }
        }
    }
}

fn check_layout(toks: &[Tok], fillers: &[usize], menu: &[(&'static str, FClass)]) -> bool {
    let text = render(toks, fillers, menu);
    let want = predicted(toks, fillers, menu);
    count!("states");
    let real = guard(|| crate::tokenizer::tokenize(None, &text));
    let real = match real {
        Err(m) => {
            violation("tokenize-panic", &text, "a token stream", &format!("panic: {m}"));
            return false;
        }
        Ok(r) => r,
    };
    let got: Option<Vec<(K, String)>> = real.as_ref().ok().map(|v| {
        v.iter().map(|t| (kind_of(&t.variant), text[t.source_range.start..t.source_range.end].to_owned())).collect()
    });
    if got.as_ref() == Some(&want) {
        count!("traces_validated");
        if text.contains('#') && text.contains('\n') {
            count!("comment_and_break_layouts");
        }
        return true;
    }
    // Finding F-COMMENT?
    if findings::is_known("F-COMMENT") && text.contains('#') {
        let defect = lexer::lex_with(&text, true);
        let same = match (&real, &defect) {
            (Ok(v), Lexed::Tokens(w)) => {
                v.len() == w.len()
                    && v.iter().zip(w).all(|(t, x)| kind_of(&t.variant) == x.k && t.source_range.start == x.start && t.source_range.end == x.end)
            }
            (Err(e), Lexed::Illegal(p)) => e.len() == p.len(),
            _ => false,
        };
        if same {
            crate::infra::known("F-COMMENT", || format!("{text:?}"));
            return true;
        }
    }
    violation(
        "layout-changes-tokens",
        &text,
        &format!("{want:?}"),
        &match &got {
            Some(g) => format!("{g:?}"),
            None => format!("Err({:?})", real.err().map(|e| bind::messages(&e))),
        },
    );
    false
}

// All layouts of a token sequence with at most `deviations` non-default gaps.
fn explore(toks: &[Tok], deviations: usize, menu: &[(&'static str, FClass)]) {
    let n = toks.len();
    let mut fillers = vec![0usize; n + 1];
    // depth 0
    check_layout(toks, &fillers, menu);
    // depth 1 and 2: all choices of gaps and non-default fillers
    let mut nstates = 0u64;
    for g1 in 0..=n {
        for f1 in 1..menu.len() {
            if !applicable(toks, g1, f1, menu) {
                continue;
            }
            fillers[g1] = f1;
            count!("transitions");
            check_layout(toks, &fillers, menu);
            nstates += 1;
            if deviations >= 2 {
                for g2 in g1 + 1..=n {
                    for f2 in 1..menu.len() {
                        if !applicable(toks, g2, f2, menu) {
                            continue;
                        }
                        fillers[g2] = f2;
                        // reached from two predecessors (either gap edited last)
                        count!("transitions", 2);
                        check_layout(toks, &fillers, menu);
                        nstates += 1;
                    }
                    fillers[g2] = 0;
                }
            }
        }
        fillers[g1] = 0;
    }
    if nstates > 0 {
        count!("nontrivial");
    }
}

// The separation rule is lexical: it must hold between any two tokens, grammatical or not. Every
// sequence of two or three token kinds (28 kinds), with the same deviation-bounded layouts.
fn token_layout_sweep(min_len: usize, max_len: usize, deviations: usize) -> Sweep {
    let seqs = crate::enumerate::Seqs::with_min(crate::model::tok::ALL28.len(), min_len, max_len);
    let s2 = seqs.clone();
    let menu = menu();
    let mut buf = vec![];
    Sweep::new(
        &format!("layouts of all token sequences of {min_len}..{max_len} kinds, {deviations} deviation(s)"),
        seqs.count(),
        move |idx| {
            seqs.unrank(idx, &mut buf);
            let toks: Vec<Tok> = buf.iter().map(|i| Tok::new(crate::model::tok::ALL28[*i])).collect();
            count!("evaluations");
            count!("token_sequences");
            explore(&toks, deviations, &menu);
        },
        move |idx| {
            let mut b = vec![];
            s2.unrank(idx, &mut b);
            let toks: Vec<Tok> = b.iter().map(|i| Tok::new(crate::model::tok::ALL28[*i])).collect();
            crate::model::tok::layout(&toks).0
        },
    )
}

fn layout_sweep(name: &str, min_len: usize, max_len: usize, deviations: usize) -> Sweep {
    layout_sweep_over(name, Grammar::load(), min_len, max_len, deviations)
}

fn layout_sweep_over(name: &str, g: Grammar, min_len: usize, max_len: usize, deviations: usize) -> Sweep {
    let sentences = Rc::new(RefCell::new(Sentences::new(g.clone(), min_len, max_len)));
    let total = sentences.borrow().total;
    let g2 = g.clone();
    let s2 = sentences.clone();
    let menu = menu();
    Sweep::new(
        name,
        total,
        move |idx| {
            let tree = sentences.borrow_mut().tree(idx);
            let toks = name_simple(&g, &tree);
            let n = toks.len();
            count!("evaluations");
            count!("sentences");
            explore(&toks, deviations, &menu);
            // `;` <-> separating line break: same tokens up to the terminator flavour, same tree.
            for (p, t) in toks.iter().enumerate() {
                if t.k != K::Semicolon || p == 0 || p + 1 >= n {
                    continue;
                }
                if !(toks[p - 1].k.is_ender() && toks[p - 1].k != K::Semicolon && toks[p + 1].k.is_starter() && toks[p + 1].k != K::Semicolon) {
                    continue;
                }
                let canonical = crate::model::tok::layout(&toks).0;
                for brk in ["\n", "\n\n", "# c\n", " \n\t"] {
                    let mut alt = String::new();
                    for (i, t2) in toks.iter().enumerate() {
                        if i == p {
                            // drop the space before, write the break
                            alt.pop();
                            alt.push_str(brk);
                            continue;
                        }
                        alt.push_str(&t2.text);
                        if i + 1 < n && i + 1 != p + 1 || (i + 1 == p + 1 && i != p) {
                            alt.push(' ');
                        }
                    }
                    count!("terminator_swaps");
                    count!("transitions");
                    let k1 = parse_key(&canonical);
                    let k2 = parse_key(&alt);
                    let want_stream: Vec<K> = toks.iter().map(|t| if std::ptr::eq(t, &toks[p]) { K::LineBreak } else { t.k }).collect();
                    if k2.0 != want_stream {
                        violation("terminator-swap-tokens", &alt, &format!("{want_stream:?}"), &format!("{:?}", k2.0));
                    } else if k1.1 != k2.1 {
                        violation("terminator-swap-tree", &alt, &k1.1, &k2.1);
                    } else {
                        count!("traces_validated");
                    }
                }
            }
        },
        move |idx| {
            let tree = s2.borrow_mut().tree(idx);
            crate::model::tok::layout(&name_simple(&g2, &tree)).0
        },
    )
}

// (token kinds, canonical rendering of the parse result)
fn parse_key(text: &str) -> (Vec<K>, String) {
    bind::with_front(text, &["u"], 2, |f| match f {
        Front::Panic { stage, message } => (vec![], format!("panic in {stage}: {message}")),
        Front::TokenizeErr(e) => (vec![], format!("tokenize error x{}", e.len())),
        Front::ParseErr { tokens, errors } => {
            (tokens.iter().map(|t| kind_of(&t.variant)).collect(), format!("parse error x{}", errors.len()))
        }
        Front::TypeErr { tokens, term, .. } => (tokens.iter().map(|t| kind_of(&t.variant)).collect(), mirror(term).key()),
        Front::Ok { tokens, term, .. } => (tokens.iter().map(|t| kind_of(&t.variant)).collect(), mirror(term).key()),
    })
}

impl Prop for C10 {
    fn id(&self) -> &'static str {
        "C10"
    }
    fn sweeps(&self, tier: Tier) -> Vec<Sweep> {
        vec![
            c09::string_sweep("strings over Σlay", sigma_lay(), 0, tier.pick(6, 7), "C10"),
            layout_sweep("layouts, 1 deviation", 1, tier.pick(5, 6), 1),
            layout_sweep("layouts, 2 deviations", 1, tier.pick(4, 5), 2),
            // definition groups: where `;` and separating line breaks actually occur
            layout_sweep_over(
                "layouts of definition groups, 1 deviation, every `;` swapped for separating line breaks",
                crate::props::c07::slices(&Grammar::load()).into_iter().find(|(n, _)| *n == "let-groups").unwrap().1,
                5,
                tier.pick(11, 15),
                1,
            ),
            token_layout_sweep(2, 3, 2),
        ]
    }
    fn evidence(&self, tier: Tier) -> EvidenceSpec {
        EvidenceSpec {
            level: "model_checking",
            rule: "states are layouts (sentence of grammar.y over the full 28-terminal alphabet, vector of gap fillers); transitions replace one gap's filler from a 17-entry menu (spaces, tabs, CR, line breaks single/multiple/padded/CRLF, comments empty / ASCII / ending in 2- and 4-byte characters / containing code, end-of-file comments); every state with at most d non-default gaps is visited and the real token stream is compared with the stream predicted by the rule of C10; every `;` between an ender and a starter is additionally swapped for 4 separating fillers and the parse trees compared (also on all sentences of a definition-group sub-grammar up to 11/15 tokens, where most `;` live). The separation rule is lexical, so the same layouts (2 deviations) are also explored for every sequence of two and three token kinds, grammatical or not (22 736 sequences). Plus every string of at most k fragments over the 12-fragment layout alphabet against the reference lexer. evaluations = strings + sentences; non-trivial = sentences with at least one applicable deviation, strings with at least two fragments".to_owned(),
            assumptions: vec![
                "ENDERS = identifier, literal, type int bool true false, ) } ;  STARTERS = identifier, literal, type int bool true false, if ( { ;  (written out from the property text)".to_owned(),
                "line breaks adjacent to an explicit `;` do separate (the `;` counts as both an ender and a starter)".to_owned(),
            ],
            evaluations: "evaluations",
            nontrivial: "nontrivial",
            states: Some("states"),
            transitions: Some("transitions"),
            traces: Some("traces_validated"),
            exhaustive: true,
            bounds: json!({"sigma_lay_max_fragments": tier.pick(6, 7), "one_deviation_max_tokens": tier.pick(5, 6), "two_deviations_max_tokens": tier.pick(4, 5)}),
            minimums: vec![("states", 100_000), ("comment_and_break_layouts", 1_000), ("terminator_swaps", 1_000), ("ok_tokens", 10_000), ("token_sequences", 22_000)],
        }
    }
}
