// C06 (iii): on hole-free terms the conversion judgement is symmetric and coincides with equality of
// normal forms (ignoring parameter annotations of functions).
use crate::{
    bind,
    enumerate::typed::Ty,
    infra::{AbortVerdict, Sweep, Tier, violation},
    model::{
        mterm::{M, to_real},
        surface,
        typing::{self, Conv},
    },
    props::sem,
};
use std::rc::Rc;

// Terms in which every operator is stuck on a variable (so the normaliser has to rebuild it rather
// than compute it): for every binary operator `x op y`, `x op 1`, `1 op x`, the negation, and the
// same under a conditional.
pub fn stuck_operator_terms() -> Vec<(String, M)> {
    use crate::model::mterm::{Op, rc};
    let x: Rc<str> = Rc::from("x");
    let y: Rc<str> = Rc::from("y");
    let lam2 = |body: M| M::Lam(x.clone(), false, rc(M::Int), rc(M::Lam(y.clone(), false, rc(M::Int), rc(body))));
    let vx = || rc(M::Var(x.clone(), 1));
    let vy = || rc(M::Var(y.clone(), 0));
    let one = || rc(M::Lit(num_bigint::BigInt::from(1)));
    let mut out = vec![];
    for op in Op::ALL {
        for (name, body) in [
            (format!("x {} y", op.text()), M::Bin(op, vx(), vy())),
            (format!("x {} 1", op.text()), M::Bin(op, vx(), one())),
            (format!("1 {} y", op.text()), M::Bin(op, one(), vy())),
            // both operands the same variable: two such terms over different variables differ, although
            // within each the operands agree
            (format!("x {} x", op.text()), M::Bin(op, vx(), vx())),
            (format!("y {} y", op.text()), M::Bin(op, vy(), vy())),
            (format!("y {} x", op.text()), M::Bin(op, vy(), vx())),
            // an operand that still reduces: convertible with the literal form, not identical to it
            (format!("x {} (1 + 1)", op.text()), M::Bin(op, vx(), rc(M::Bin(Op::Add, one(), one())))),
            (format!("x {} 2", op.text()), M::Bin(op, vx(), rc(M::Lit(num_bigint::BigInt::from(2))))),
            (format!("(1 + 1) {} y", op.text()), M::Bin(op, rc(M::Bin(Op::Add, one(), one())), vy())),
            (format!("2 {} y", op.text()), M::Bin(op, rc(M::Lit(num_bigint::BigInt::from(2))), vy())),
        ] {
            out.push((format!("(x : int) => (y : int) => {name}"), lam2(body.clone())));
            if !op.is_arith() {
                out.push((format!("(x : int) => (y : int) => if {name} then 1 else 2"), lam2(M::If(rc(body), one(), rc(M::Lit(num_bigint::BigInt::from(2)))))));
            }
        }
    }
    out.push(("(x : int) => (y : int) => -x".to_owned(), lam2(M::Neg(vx()))));
    out.push(("(x : int) => (y : int) => -y".to_owned(), lam2(M::Neg(vy()))));
    out
}

// A variable applied to two and three arguments drawn from a pool of convertible but differently
// written integers: conversion has to compare every argument of a neutral spine up to reduction, not
// only the last one.
pub fn neutral_spine_terms() -> Vec<(String, M)> {
    let g = crate::model::grammar::Grammar::load();
    let pool = ["2", "(1 + 1)", "(z : int = 2; z)", "(if true then 2 else 3)", "3"];
    let mut texts = vec![];
    for a in pool {
        for b in pool {
            texts.push(format!("(r : int -> int -> int) => r {a} {b}"));
            for c in pool {
                texts.push(format!("(r : int -> int -> int -> int) => r {a} {b} {c}"));
            }
        }
    }
    // the same arguments inside the *condition* of a conditional that is stuck on a neutral application:
    // two such conditionals are convertible when their conditions are, up to reduction inside the
    // arguments (weak-head normalisation does not reach there), and their branches are
    for a in pool {
        texts.push(format!("(r : int -> bool) => if r {a} then 1 else 2"));
        texts.push(format!("(r : int -> bool) => if r {a} then 2 else 1"));
        for b in ["2", "(1 + 1)", "3"] {
            texts.push(format!("(r : int -> int -> bool) => if r {a} {b} then {b} else 0"));
        }
    }
    texts
        .into_iter()
        .filter_map(|t| surface::parse_text(&g, &t).and_then(|s| surface::resolve(&s, &[]).ok()).map(|m| (t, m)))
        .collect()
}

pub fn pair_sweeps(tier: Tier) -> Vec<Sweep> {
    let progs = sem::typed_programs(sem::typed_size(tier));
    let per_type = tier.pick(420, 1000);
    let mut out = vec![];
    let mut groups: Vec<(String, Vec<(String, M)>)> = vec![
        ("terms whose operators are stuck on variables".to_owned(), stuck_operator_terms()),
        ("a variable applied to convertible, differently written arguments".to_owned(), neutral_spine_terms()),
    ];
    for goal in crate::enumerate::typed::goals() {
        let terms: Vec<(String, M)> = progs
            .iter()
            .filter(|(t, _)| *t == goal)
            .take(per_type)
            .filter_map(|(_, s)| surface::resolve(s, &[]).ok().map(|m| (surface::print(s), m)))
            .collect();
        // implicitness is part of the judgement: add the implicit twin of the first lambdas / function types
        let mut terms = terms;
        let twins: Vec<(String, M)> = terms
            .iter()
            .filter_map(|(t, m)| match m {
                M::Lam(n, i, a, b) => Some((format!("{t} [implicit twin]"), M::Lam(n.clone(), !*i, a.clone(), b.clone()))),
                M::Pi(n, i, a, b) => Some((format!("{t} [implicit twin]"), M::Pi(n.clone(), !*i, a.clone(), b.clone()))),
                _ => None,
            })
            .take(40)
            .collect();
        terms.extend(twins);
        groups.push((format!("the {} smallest terms of type {}", terms.len(), goal.show()), terms));
    }
    for (gname, terms) in groups {
        let n = terms.len() as u64;
        if n < 2 {
            continue;
        }
        let terms = Rc::new(terms);
        let t2 = terms.clone();
        out.push(
            Sweep::new(
                &format!("ordered pairs of {gname}"),
                n * n,
                move |idx| {
                    let (a_text, a) = &terms[(idx / n) as usize];
                    let (b_text, b) = &terms[(idx % n) as usize];
                    count!("evaluations");
                    count!("pairs");
                    if idx / n == idx % n {
                        // On the diagonal: the weak-head normal form the checker computes for the body of
                        // the term, under the binders of the term, is a reduct of it — put back under the
                        // binders it must be convertible with the term in the reference. (unify normalises
                        // both sides with the same normaliser, so a rule that rebuilds a stuck term
                        // wrongly cancels out there.)
                        let (blocks, body) = crate::props::c18::peel(a, 3);
                        let (_, mut dc) = crate::props::c18::materialise(&blocks);
                        let base = dc.len();
                        let rb = to_real(&body, &mut Default::default());
                        match bind::guard(|| crate::normalizer::normalize_weak_head(&rb, &mut dc)) {
                            Err(m) => violation("normalize-panic", a_text, "a weak-head normal form", &m),
                            Ok(nf) => {
                                let nf = crate::model::mterm::mirror(&nf);
                                if dc.len() != base {
                                    violation("context-not-restored", a_text, &format!("{base} entries"), &format!("{}", dc.len()));
                                }
                                match typing::convertible_closed(a, &crate::props::c18::wrap_term(&blocks, &nf), sem::TYPING_FUEL) {
                                    Conv::Equal => {
                                        count!("whnf_is_a_reduct");
                                        count!("traces_validated");
                                    }
                                    Conv::Unknown => count!("skipped_fuel"),
                                    Conv::Different => violation(
                                        "weak-head-normal-form-is-not-a-reduct",
                                        a_text,
                                        &format!("normalize_weak_head of the body, under the binders of the term, convertible with the body: {}", body.show()),
                                        &nf.show(),
                                    ),
                                }
                            }
                        }
                    }
                    let want = typing::convertible_closed(a, b, sem::TYPING_FUEL);
                    if want == Conv::Unknown {
                        count!("skipped_fuel");
                        return;
                    }
                    let (ra, rb) = (to_real(a, &mut Default::default()), to_real(b, &mut Default::default()));
                    let mut dc = vec![];
                    let ab = bind::guard(|| crate::unifier::unify(&ra, &rb, &mut dc));
                    let ba = bind::guard(|| crate::unifier::unify(&rb, &ra, &mut dc));
                    let input = || format!("unify of  {a_text}  and  {b_text}");
                    match (ab, ba) {
                        (Ok(x), Ok(y)) => {
                            if x != y {
                                violation("conversion-not-symmetric", &input(), "unify(a, b) = unify(b, a)", &format!("{x} vs {y}"));
                            } else if x != (want == Conv::Equal) {
                                violation("conversion-differs-from-normal-forms", &input(), &format!("{:?} (equality of normal forms in the reference)", want), &format!("unify = {x}"));
                            } else {
                                count!("pairs_agree");
                                if x {
                                    count!("pairs_equal");
                                }
                                count!("nontrivial");
                                count!("traces_validated");
                            }
                            if !dc.is_empty() {
                                violation("context-not-restored", &input(), "empty context", &format!("{} entries", dc.len()));
                            }
                        }
                        (Err(m), _) | (_, Err(m)) => violation("unify-panic", &input(), "a verdict", &m),
                    }
                },
                move |idx| format!("{}  ~  {}", t2[(idx / n) as usize].0, t2[(idx % n) as usize].0),
            )
            .with_post_abort(|_, kind| AbortVerdict::Violation {
                sub: "abnormal-ending".to_owned(),
                input: String::new(),
                expected: "a verdict (the reference decides this pair within fuel)".to_owned(),
                actual: kind.to_owned(),
            }),
        );
    }
    out
}
