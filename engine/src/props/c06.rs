// C06 (iii): on hole-free terms the conversion judgement is symmetric and coincides with equality of
// normal forms (ignoring parameter annotations of functions).
use crate::{
    bind,
    enumerate::typed::Ty,
    infra::{AbortVerdict, Sweep, Tier, violation},
    model::{
        mterm::{M, to_real},
        surface,
        typing::{self, Conv},
    },
    props::sem,
};
use std::rc::Rc;

pub fn pair_sweeps(tier: Tier) -> Vec<Sweep> {
    let progs = sem::typed_programs(sem::typed_size(tier));
    let per_type = tier.pick(420, 1000);
    let mut out = vec![];
    for goal in crate::enumerate::typed::goals() {
        let terms: Vec<(String, M)> = progs
            .iter()
            .filter(|(t, _)| *t == goal)
            .take(per_type)
            .filter_map(|(_, s)| surface::resolve(s, &[]).ok().map(|m| (surface::print(s), m)))
            .collect();
        let n = terms.len() as u64;
        if n < 2 {
            continue;
        }
        let terms = Rc::new(terms);
        let t2 = terms.clone();
        out.push(
            Sweep::new(
                &format!("ordered pairs of the {n} smallest terms of type {}", goal.show()),
                n * n,
                move |idx| {
                    let (a_text, a) = &terms[(idx / n) as usize];
                    let (b_text, b) = &terms[(idx % n) as usize];
                    count!("evaluations");
                    count!("pairs");
                    let want = typing::convertible_closed(a, b, sem::TYPING_FUEL);
                    if want == Conv::Unknown {
                        count!("skipped_fuel");
                        return;
                    }
                    let (ra, rb) = (to_real(a, &mut Default::default()), to_real(b, &mut Default::default()));
                    let mut dc = vec![];
                    let ab = bind::guard(|| crate::unifier::unify(&ra, &rb, &mut dc));
                    let ba = bind::guard(|| crate::unifier::unify(&rb, &ra, &mut dc));
                    let input = || format!("unify of  {a_text}  and  {b_text}");
                    match (ab, ba) {
                        (Ok(x), Ok(y)) => {
                            if x != y {
                                violation("conversion-not-symmetric", &input(), "unify(a, b) = unify(b, a)", &format!("{x} vs {y}"));
                            } else if x != (want == Conv::Equal) {
                                violation("conversion-differs-from-normal-forms", &input(), &format!("{:?} (equality of normal forms in the reference)", want), &format!("unify = {x}"));
                            } else {
                                count!("pairs_agree");
                                if x {
                                    count!("pairs_equal");
                                }
                                count!("nontrivial");
                                count!("traces_validated");
                            }
                            if !dc.is_empty() {
                                violation("context-not-restored", &input(), "empty context", &format!("{} entries", dc.len()));
                            }
                        }
                        (Err(m), _) | (_, Err(m)) => violation("unify-panic", &input(), "a verdict", &m),
                    }
                },
                move |idx| format!("{}  ~  {}", t2[(idx / n) as usize].0, t2[(idx % n) as usize].0),
            )
            .with_post_abort(|_, kind| AbortVerdict::Violation {
                sub: "abnormal-ending".to_owned(),
                input: String::new(),
                expected: "a verdict (the reference decides this pair within fuel)".to_owned(),
                actual: kind.to_owned(),
            }),
        );
    }
    out
}
