// Thin adapters around gram's real functions.
use crate::{
    error::Error,
    model::mterm::{M, Mirror},
    term::Term,
    token::Token,
};
use std::{
    panic::{AssertUnwindSafe, catch_unwind},
    rc::Rc,
};

pub fn init() {
    colored::control::set_override(false);
}

// Run a piece of the real code, turning a panic into Err(message).
pub fn guard<T>(f: impl FnOnce() -> T) -> Result<T, String> {
    catch_unwind(AssertUnwindSafe(f)).map_err(|e| crate::infra::panic_message(&e))
}

pub fn messages(errors: &[Error]) -> Vec<String> {
    errors.iter().map(|e| e.to_string()).collect()
}

pub enum Front<'a, 'b> {
    Panic { stage: &'static str, message: String },
    TokenizeErr(Vec<Error>),
    ParseErr { tokens: &'b [Token<'a>], errors: Vec<Error> },
    TypeErr { tokens: &'b [Token<'a>], term: &'b Term<'a>, errors: Vec<Error> },
    Ok { tokens: &'b [Token<'a>], term: &'b Term<'a>, elab: &'b Term<'a>, ty: &'b Term<'a> },
}

impl Front<'_, '_> {
    pub fn stage_name(&self) -> &'static str {
        match self {
            Front::Panic { .. } => "panic",
            Front::TokenizeErr(_) => "tokenize-error",
            Front::ParseErr { .. } => "parse-error",
            Front::TypeErr { .. } => "type-error",
            Front::Ok { .. } => "ok",
        }
    }
}

// The pipeline of `main.rs::run` (tokenize -> parse -> type_check), one stage at a time, each under
// `guard`. `upto`: 1 = tokenize only, 2 = + parse, 3 = + type check.
pub fn with_front<R>(src: &str, context: &[&str], upto: u8, f: impl FnOnce(Front) -> R) -> R {
    let tokens = match guard(|| crate::tokenizer::tokenize(None, src)) {
        Err(message) => return f(Front::Panic { stage: "tokenize", message }),
        Ok(Err(e)) => return f(Front::TokenizeErr(e)),
        Ok(Ok(t)) => t,
    };
    with_tokens(src, &tokens, context, upto, f)
}

pub fn with_tokens<'a, R>(
    src: &'a str,
    tokens: &[Token<'a>],
    context: &[&'a str],
    upto: u8,
    f: impl FnOnce(Front) -> R,
) -> R {
    if upto < 2 {
        return f(Front::ParseErr { tokens, errors: vec![] });
    }
    // SAFETY of lifetimes: `parse` wants tokens: &'a [Token<'a>]; we shorten nothing, we only need the
    // slice to live as long as this call, so we transmute the slice lifetime locally.
    let tokens_a: &'a [Token<'a>] = unsafe { std::mem::transmute::<&[Token<'a>], &'a [Token<'a>]>(tokens) };
    let term = match guard(|| crate::parser::parse(None, src, tokens_a, context)) {
        Err(message) => return f(Front::Panic { stage: "parse", message }),
        Ok(Err(e)) => return f(Front::ParseErr { tokens, errors: e }),
        Ok(Ok(t)) => t,
    };
    if upto < 3 {
        return f(Front::TypeErr { tokens, term: &term, errors: vec![] });
    }
    let r = guard(|| {
        let mut tc = vec![];
        let mut dc = vec![];
        let r = crate::type_checker::type_check(None, src, &term, &mut tc, &mut dc);
        (r, tc.len(), dc.len())
    });
    match r {
        Err(message) => f(Front::Panic { stage: "type_check", message }),
        Ok((Err(e), _, _)) => f(Front::TypeErr { tokens, term: &term, errors: e }),
        Ok((Ok((elab, ty)), _, _)) => f(Front::Ok { tokens, term: &term, elab: &elab, ty: &ty }),
    }
}

// Run the real evaluator one step at a time. Returns the list of states (as real terms) up to the
// horizon, and how it ended.
pub enum RunEnd {
    Value,
    Stuck,
    Horizon,
    Panic(String),
}

pub fn run_steps<'a>(start: &Term<'a>, horizon: usize, mut on_state: impl FnMut(usize, &Term<'a>)) -> (Term<'a>, RunEnd, usize) {
    let mut cur = start.clone();
    let mut n = 0;
    loop {
        on_state(n, &cur);
        if n >= horizon {
            return (cur, RunEnd::Horizon, n);
        }
        match guard(|| crate::evaluator::step(&cur)) {
            Err(m) => return (cur, RunEnd::Panic(m), n),
            Ok(Some(next)) => {
                cur = next;
                n += 1;
            }
            Ok(None) => {
                let v = crate::evaluator::is_value(&cur);
                return (cur, if v { RunEnd::Value } else { RunEnd::Stuck }, n);
            }
        }
    }
}
